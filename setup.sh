#!/bin/sh
# Build the overlay venv used by every check (offline). Idempotent.
# /verif/.venv = venv of /venv's interpreter + .pth → /venv site-packages (repo deps) + crosshair-tool, z3-solver from the wheelhouse.
set -e
HERE="$(cd "$(dirname "$0")" && pwd)"
V="$HERE/.venv"
if [ -x "$V/bin/python" ] && "$V/bin/python" -c "import crosshair, z3, yaml" 2>/dev/null; then
  exit 0
fi
rm -rf "$V"
/venv/bin/python -m venv "$V"
SP="$("$V/bin/python" -c 'import sysconfig; print(sysconfig.get_paths()["purelib"])')"
echo "import site; site.addsitedir('/venv/lib/python3.12/site-packages')" > "$SP/_verif_overlay.pth"
PIP_NO_INDEX=1 "$V/bin/python" -m pip install -q --no-index --find-links /opt/veriftools/wheels crosshair-tool z3-solver >/dev/null
"$V/bin/python" -c "import crosshair, z3, yaml; print('overlay ok', z3.get_version_string())"
