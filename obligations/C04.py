"""C04: HSMS frames are bit-exact; reassembly is independent of TCP segmentation (inductive step over the receive buffer)."""
from typing import List

from engine.chx import fin, pick
from oracles import refe37
from rigs.park import Park, ParkCondition, BlockSink
from secsgem.common.byte_queue import ByteQueue
from secsgem.hsms.header import HsmsHeader, HsmsSType
from secsgem.hsms.message import HsmsBlock, HsmsMessage
from secsgem.hsms.protocol import HsmsProtocol
from secsgem.common.protocol import Protocol

_ST = [HsmsSType(v) for v in refe37.STYPES]


def _same(h, f):
    return (h.system == f["system"] and h.device_id == f["session"] and h.stream == f["stream"] and h.function == f["function"]
            and h.require_response == f["w"] and h.p_type == f["p_type"] and h.s_type.value == f["s_type"])


def header_encode(system: int, session: int, stream: int, function: int, w: bool, p_type: int, st: int) -> bool:
    """
    pre: 0 <= system < 2**32 and 0 <= session < 2**16 and 0 <= stream < 128 and 0 <= function < 256 and 0 <= p_type < 256
    pre: 0 <= st < 9
    post: _
    """
    s_type = pick(_ST, st)
    h = HsmsHeader(system, session, stream, function, w, p_type, s_type)
    return fin(list(h.encode()) == refe37.header(system, session, stream, function, w, p_type, s_type.value))


def header_decode(hb: bytes) -> bool:
    """
    pre: len(hb) == 10
    post: _
    """
    try:
        h = HsmsHeader.decode(hb)
    except ValueError:
        return fin(hb[5] not in refe37.STYPES)      # undefined SType: rejected, not mis-decoded
    if hb[5] not in refe37.STYPES:
        return False
    return fin(_same(h, refe37.fields(list(hb))) and h.encode() == hb)


def _valid_stype(hb):
    return hb[5] in refe37.STYPES


def block_codec(hb: bytes, body: bytes, big: int) -> bool:
    """
    pre: len(hb) == 10
    pre: hb[5] <= 9 and hb[5] != 8
    pre: len(body) <= 3
    pre: 0 <= big <= 2
    post: _
    """
    pl = pick([b"", b"\x5a" * 253, b"\x5a" * 65533], big) + body
    want = refe37.frame(list(hb), list(pl))
    blk = HsmsBlock(HsmsHeader.decode(hb), pl)
    if list(blk.encode()) != want:
        return False
    msg = HsmsMessage(HsmsHeader.decode(hb), pl)
    if len(msg.blocks) != 1 or list(msg.blocks[0].encode()) != want:
        return False
    dec = HsmsBlock.decode(bytes(want))
    return fin(dec is not None and _same(dec.header, refe37.fields(list(hb))) and dec.data == pl)


def _rx(initial):
    """a real HsmsProtocol whose receive buffer starts with `initial`; blocking waits park, queued blocks are recorded"""
    from rigs import hsms as hrig
    p, c, delivered = hrig.make_protocol()
    q = p._receive_buffer
    q._buffer_lock = ParkCondition()
    q._buffer = bytearray(initial)
    p._thread = BlockSink()
    return p


def _feed(p, segment):
    """deliver one TCP segment and run the receiver the way the receiver thread does; returns True if it parked"""
    p._on_connection_data_received({"source": None, "data": segment})
    try:
        p._process_received_data()
    except Park:
        return True
    return False


def reassembly_step(h1: bytes, h2: bytes, b1: bytes, b2: bytes, j: int, m: int) -> bool:
    """
    pre: len(h1) == 10 and len(h2) == 10
    pre: h1[5] <= 9 and h1[5] != 8 and h2[5] <= 9 and h2[5] != 8
    pre: len(b1) <= 3 and len(b2) <= 2
    pre: 0 <= j < 14 + len(b1)
    pre: 1 <= m <= 28 + len(b1) + len(b2) - j
    post: _
    """
    # invariant I (pre-state): the buffer holds the first j bytes of the not yet delivered frame sequence, j < len(frame 1)
    f1 = bytes(refe37.frame(list(h1), list(b1)))
    f2 = bytes(refe37.frame(list(h2), list(b2)))
    stream = f1 + f2
    p = _rx(stream[:j])
    parked = _feed(p, stream[j:j + m])
    end = j + m
    want = []
    consumed = 0
    if end >= len(f1):
        want.append((h1, b1))
        consumed = len(f1)
        if end >= len(stream):
            want.append((h2, b2))
            consumed = len(stream)
    got = p._thread.blocks
    if len(got) != len(want):
        return False
    for blk, (hb, body) in zip(got, want):
        if blk is None or not _same(blk.header, refe37.fields(list(hb))) or blk.data != body:
            return False
    # invariant I (post-state) and restartability: exactly the undelivered bytes remain, nothing of an incomplete frame consumed
    rest = bytes(p._receive_buffer._buffer)
    # (whether the receiver parks or returns in front of an incomplete frame is its own business: both are accepted)
    return fin(rest == stream[consumed:end])


def single_bytes(h1: bytes, b1: bytes) -> bool:
    """
    pre: len(h1) == 10
    pre: h1[5] <= 9 and h1[5] != 8
    pre: len(b1) <= 2
    post: _
    """
    # the extreme partition: every byte its own segment, two back-to-back copies of the frame
    f1 = bytes(refe37.frame(list(h1), list(b1)))
    stream = f1 + f1
    p = _rx(b"")
    for i in range(len(stream)):
        _feed(p, stream[i:i + 1])
        if len(p._thread.blocks) != (i + 1) // len(f1):
            return False
    return fin(len(p._thread.blocks) == 2 and all(_same(b.header, refe37.fields(list(h1))) and b.data == b1
                                                   for b in p._thread.blocks) and len(p._receive_buffer) == 0)


def tcp_receive_loop(script: List[int]) -> bool:
    """
    pre: 1 <= len(script) <= 4
    pre: all(0 <= x <= 3 for x in script)
    post: _
    """
    # the socket receiver loop of TcpConnection against the recv() contract: recv(n) returns 1..n of the bytes the kernel
    # holds (here: 1, n-1 or exactly n bytes) or raises EWOULDBLOCK; every byte recv handed out must reach on_data, in order
    import errno
    import secsgem.common.tcp_connection as tc
    import secsgem.hsms
    from rigs.sock import always_writable

    class Conn(tc.TcpConnection):
        def enable(self):
            pass

        def disable(self):
            pass

    conn = Conn(secsgem.hsms.HsmsSettings())
    handed = []
    got = []

    class Sock:
        def __init__(self):
            self.i = 0
            self.n = 0

        def fileno(self):
            return 3

        def recv(self, size):
            if self.i >= len(script):
                conn._stop_thread = True                     # nothing more will arrive: let the loop end
                raise OSError(errno.EWOULDBLOCK, "would block")
            kind = script[self.i]
            self.i += 1
            if kind == 3:
                raise OSError(errno.EWOULDBLOCK, "would block")
            k = pick([1, size - 1, size], kind)
            chunk = bytes([(self.n + j) % 251 for j in range(k)])
            self.n += k
            handed.append(chunk)
            return chunk

        def close(self):
            pass

    conn._sock = Sock()
    tc.select.select = lambda r, w, x, t=None: (list(r), [], [])
    tc.format_hex = lambda d: ""
    conn.on_data.register(lambda d: got.append(bytes(d["data"])))
    conn._TcpConnection__receiver_thread_read_data()
    return fin(b"".join(got) == b"".join(handed))


def undecodable_frame(h1: bytes, h2: bytes, b2: bytes, cut: int, ssel: int) -> bool:
    """
    pre: len(h1) == 10 and len(h2) == 10
    pre: h1[5] == 8 or h1[5] >= 10
    pre: h2[5] <= 9 and h2[5] != 8
    pre: len(b2) <= 2
    pre: 0 <= cut <= 14 and 0 <= ssel <= 3
    post: _
    """
    # a frame the receiver cannot decode (undefined SType, or a length field below the 10 header bytes) must not disturb the
    # framing of what follows: the well-formed frame behind it is delivered, however the two are cut into segments, and nothing
    # stays behind in the buffer. (The receiver thread logs and swallows an exception of one pass; so does this harness.)
    short = pick([0, 1, 6, 10], ssel)          # length field 10 (undefined SType), 9, 4, 0
    if short > 0:
        bad = bytes([0, 0, 0, 10 - short]) + h1[: 10 - short]
    else:
        bad = bytes(refe37.frame(list(h1), []))
    f2 = bytes(refe37.frame(list(h2), list(b2)))
    stream = bad + f2
    p = _rx(b"")
    k = cut if cut < len(stream) else 0
    segments = [stream] if k == 0 else [stream[:k], stream[k:]]
    for seg in segments:
        p._on_connection_data_received({"source": None, "data": seg})
        try:
            p._process_received_data()
        except Park:
            return False
        except Exception:
            pass
    got = [b for b in p._thread.blocks if b is not None]
    return fin(len(got) == 1 and _same(got[0].header, refe37.fields(list(h2))) and got[0].data == b2
               and len(p._receive_buffer) == 0)


_BACKLOG = [b"", bytes((7 * i) % 251 for i in range(5000))]
_EXTRA = [bytes((3 * j + k) % 256 for j in range(k)) for k in (0, 1, 2, 3, 4097, 5001)]      # built once, outside the engine


def bytequeue_model(tail: bytes, big: int, ops: List[int], ks: List[int]) -> bool:
    """
    pre: len(tail) <= 2 and 0 <= big <= 1
    pre: len(ops) <= 2 and len(ks) == 2
    pre: all(0 <= o <= 4 for o in ops) and all(0 <= k <= 5 for k in ks)
    post: _
    """
    # the receive buffer against its specification (a plain byte string) over every sequence of <= 2 operations, from a backlog of
    # 0 / 5000 concrete bytes plus a symbolic tail: sizes are small (0..3 bytes) or large (4097, 5001 bytes), so any size-
    # or backlog-dependent fast path of the queue is crossed. len(), peek, pop, pop_byte, append and clear must agree after every step.
    ref = pick(_BACKLOG, big) + tail
    q = ByteQueue()
    q.append(ref)
    if len(q) != len(ref):
        return False
    for i, op in enumerate(ops):
        k = pick([0, 1, 2, 3, 4097, 5001], ks[i])
        if op == 0:
            got = bytes(q.pop(k))
            want, ref = ref[:k], ref[k:]
            if got != want:
                return False
        elif op == 1:
            if bytes(q.peek(k)) != ref[:k]:
                return False
        elif op == 2:
            if len(ref) == 0:
                continue
            if q.pop_byte() != ref[0]:
                return False
            ref = ref[1:]
        elif op == 3:
            extra = pick(_EXTRA, ks[i])
            q.append(extra)
            ref = ref + extra
        else:
            if len(ref) > 0 and q.peek_byte(0) != ref[0]:
                return False
            if k == 5 and i == 1:
                q.clear()
                ref = b""
        if len(q) != len(ref):
            return False
    return fin(bytes(q.peek(len(ref) + 1)) == ref)


_J = 17
OBLIGATIONS = [
    dict(name="header_encode", fn="header_encode", timeout=120, functions=["HsmsHeader.__init__/encode"],
         bounds="all field values in their E37 ranges, all 9 defined STypes"),
    dict(name="header_decode", fn="header_decode", timeout=200, functions=["HsmsHeader.decode/encode"],
         bounds="all 2^80 header byte strings: defined STypes decode field-exact and re-encode to the same bytes, undefined STypes raise"),
    dict(name="block_codec", fn="block_codec", timeout=300, parts=["big == 0", "big == 1", "big == 2"],
         functions=["Block.encode/decode (HsmsBlock)", "HsmsMessage.blocks", "HsmsHeader.encode/decode"],
         bounds="all headers with defined SType; body = concrete prefix 0/253/65533 + 0..3 symbolic bytes (length field bytes roll over)",
         outside="bodies with more than 3 symbolic bytes"),
    dict(name="reassembly_step", fn="reassembly_step", timeout=900,
         parts={"quick": ["j == %d and len(b1) <= 2 and len(b2) <= 1" % j for j in range(16)],
                "thorough": ["j == %d and len(b1) <= 2 and len(b2) <= 1" % j for j in range(16)]
                + ["j == %d and (len(b1) == 3 or len(b2) == 2)" % j for j in range(17)]},
         functions=["Protocol._on_connection_data_received", "HsmsProtocol._process_received_data", "ByteQueue.append/wait_for/peek/pop",
                    "HsmsBlock.decode", "HsmsHeader.decode"],
         bounds="inductive step: any buffer state 'first j bytes of the pending frame' (every j: inside length, header, body) + one segment "
                "of m bytes reaching at most to the end of the next frame; two frames with arbitrary headers, bodies <= 2 / <= 1 (thorough <= 3 / <= 2) symbolic "
                "bytes; every j, every m (partitioned by j over the workers)",
         outside="bodies > 2 bytes; segments completing more than 2 frames; real thread races between append and the receiver"),
    dict(name="single_bytes", fn="single_bytes", timeout=300,
         functions=["same as reassembly_step, base case from the empty buffer"],
         bounds="two frames delivered one byte per segment (32 segments) from the empty buffer, arbitrary header, body <= 2"),
]
OBLIGATIONS.append(
    dict(name="tcp_receive_loop", fn="tcp_receive_loop", timeout=300,
         functions=["TcpConnection.__receiver_thread_read_data (select / recv(1024) / on_data loop)"],
         bounds="scripts of <= 4 recv outcomes: 1 byte, 1023 bytes, exactly 1024 bytes (buffer-filling read) or EWOULDBLOCK; every "
                "byte returned by recv reaches on_data once, in order",
         outside="the real kernel; reads of other sizes (the loop is size independent apart from the full-buffer case)"))
ASSUMPTIONS = ["ByteQueue's Condition replaced by ParkCondition (rigs/park.py): a parked receiver is modelled by re-entry, justified by the "
               "asserted 'nothing consumed before the park'", "ProtocolDispatcher replaced by a recording sink (delivery order = queue order)"]
OBLIGATIONS.append(
    dict(name="undecodable_frame", fn="undecodable_frame", timeout=600, parts=["ssel == %d" % i for i in range(4)],
         functions=["HsmsProtocol._process_received_data", "HsmsBlock.decode / HsmsHeader.decode on frames they reject"],
         bounds="a frame with any undefined SType (8, 10..255) and arbitrary other header bytes, or a frame whose length field is 9, 4 or 0, "
                "followed by a well-formed frame (any header, body <= 2), in one segment or cut at any of the first 14 offsets: the "
                "well-formed frame is delivered exactly once and the buffer is empty afterwards",
         outside="more than one undecodable frame in a row; length fields larger than the data that ever arrives (no T8 in the library)"))
OBLIGATIONS.append(
    dict(name="bytequeue_model", fn="bytequeue_model", timeout={"quick": 600, "thorough": 1800}, parts={"quick": ["big == %d and len(ops) <= 1" % i for i in range(2)],
                "thorough": ["big == %d and len(ops) <= 1" % i for i in range(2)]
                + ["big == %d and len(ops) == 2 and ops[0] == %d" % (i, o) for i in range(2) for o in (0, 1, 2, 4)]},
         functions=["ByteQueue.append/pop/pop_byte/peek/peek_byte/clear/__len__"],
         bounds="backlog 0 / 5000 concrete bytes + symbolic tail <= 2, every single operation (thorough: every pair that does not start with an append) with sizes 0..3, 4097, "
                "5001: results and length equal the byte-string specification after every step",
         outside="longer operation sequences; wait_for (blocking) - exercised by the frame obligations"))
