"""C09: no peer behaviour wedges the endpoint - link loss at every byte offset ends in a clean, reusable state."""
import threading
import time

from engine.chx import fin, pick
from oracles import refe37
from rigs import hsms as rig
from rigs.park import Park, ParkCondition
import secsgem.common.block_send_info as bsi
from secsgem.hsms.connection_state_machine import ConnectionState
import secsgem.hsms.protocol as hp


class Wedge(Exception):
    pass


def _instrument(p):
    """the protocol's single receiver/sender thread is modelled by one flag: once it is parked inside a data-only wait
    (ByteQueue.wait_for) it cannot run the send queue any more; a sender waiting for a block that nobody can send is a wedge"""
    state = {"parked": False}
    p._receive_buffer._buffer_lock = ParkCondition()

    def trigger():
        if state["parked"]:
            return
        p._process_send_queue()
        try:
            p._process_received_data()
        except Park:
            state["parked"] = True
    p._thread.trigger_receiver = trigger
    p._thread.queue_block = lambda source, block: p._dispatch_block(source, block)     # dispatcher inline
    return state


def _wait_or_wedge(self):
    if not self._result_trigger.is_set():
        raise Wedge("BlockSendInfo.wait with no thread left to send the block")
    return self._result == bsi.BlockSendResult.SENT_OK


def cut_then_close(hb: bytes, body: bytes, j: int, selected: bool, local: bool, linktest_running: bool) -> bool:
    """
    pre: len(hb) == 10 and hb[5] <= 9 and hb[5] != 8
    pre: len(body) <= 4
    pre: 0 <= j <= 14 + len(body)
    post: _
    """
    # the peer sent the first j bytes of a frame (j = 0: between frames; inside the length field, header or body), then the
    # connection ends: peer close (on_disconnecting + on_disconnected from the connection) or local disable (same callbacks)
    frame = bytes(refe37.frame(list(hb), list(body)))
    if j >= len(frame):
        return True
    p, c, delivered = rig.make_protocol()
    rig.set_state(p, 2 if selected else 1)
    st = _instrument(p)
    ft = rig.FakeThreading()
    hp.threading = ft
    bsi.BlockSendInfo.wait = _wait_or_wedge
    # the connected state owns its linktest timer; its callback may be in the middle of a Linktest transaction (waiting for T6)
    p._linktest_timer = ft.Timer(30, p._on_linktest_timer)
    p._linktest_timer.start()
    p._linktest_timer.running = linktest_running
    if j > 0:
        p._on_connection_data_received({"source": c, "data": frame[:j]})
    try:
        c._disconnecting = True
        p._on_disconnecting({"source": c})
        c._disconnecting = False
        p._on_disconnected({"source": c})
    except (Wedge, Park, rig.TimerBusy):
        return False                                      # disconnect handling would never finish (or only after T6)
    if p.connection_state.current != ConnectionState.NOT_CONNECTED or len(p._receive_buffer) != 0:
        return False
    # next connection: no stale bytes, select works again
    st["parked"] = False
    p._on_connected({"source": c})
    del c.wire[:]
    sel = bytes(refe37.frame(refe37.header(77, 0xFFFF, 0, 0, False, 0, 1), []))
    p._on_connection_data_received({"source": c, "data": sel})
    return fin(p.connection_state.current == ConnectionState.CONNECTED_SELECTED
               and [bytes(w) for w in c.wire] == [bytes(refe37.frame(refe37.header(77, 0xFFFF, 0, 0, False, 0, 2), []))])


def real_threads():
    """the same scenario on real threads for every cut offset of a 16-byte frame: disconnect handling must finish within 3 s,
    report NOT CONNECTED, and the next connection must select (replay rig for wedges; enumeration, no solver)"""
    import secsgem.hsms
    from secsgem.hsms.protocol import HsmsProtocol
    frame = bytes(refe37.frame(refe37.header(5, 0, 1, 1, True, 0, 0), [1, 2]))
    n = 0
    for selected in (False, True):
        for j in range(len(frame)):
            s = rig._Settings(connect_mode=secsgem.hsms.HsmsConnectMode.PASSIVE)
            s._c = rig.FakeConn(s)
            p = HsmsProtocol(s)
            c = p._connection
            c.on_connected({"source": c})
            if selected:
                c.on_data({"source": c, "data": bytes(refe37.frame(refe37.header(9, 0xFFFF, 0, 0, False, 0, 1), []))})
                t0 = time.time()
                while p.connection_state.current != ConnectionState.CONNECTED_SELECTED and time.time() - t0 < 3:
                    time.sleep(0.01)
            if j:
                c.on_data({"source": c, "data": frame[:j]})
            time.sleep(0.02)

            def close():
                c._disconnecting = True
                c.on_disconnecting({"source": c})
                c._disconnecting = False
                c.on_disconnected({"source": c})
            t = threading.Thread(target=close, daemon=True)
            t.start()
            t.join(3)
            n += 1
            if t.is_alive() or p.connection_state.current != ConnectionState.NOT_CONNECTED or len(p._receive_buffer) != 0:
                return {"state": "refuted", "reproduced": True, "cex": {"cut": j, "selected": selected, "hung": t.is_alive()},
                        "detail": "disconnect handling did not finish / state not NOT_CONNECTED / stale bytes"}
            c.on_connected({"source": c})
            del c.wire[:]
            c.on_data({"source": c, "data": bytes(refe37.frame(refe37.header(10, 0xFFFF, 0, 0, False, 0, 1), []))})
            t0 = time.time()
            while p.connection_state.current != ConnectionState.CONNECTED_SELECTED and time.time() - t0 < 3:
                time.sleep(0.01)
            ok = p.connection_state.current == ConnectionState.CONNECTED_SELECTED
            close()
            if not ok:
                return {"state": "refuted", "reproduced": True, "cex": {"cut": j, "selected": selected},
                        "detail": "no select on the next connection"}
    return {"state": "confirmed", "paths": n, "extra": "real threads, every cut offset of one frame, both session states"}


OBLIGATIONS = [
    dict(name="cut_then_close", fn="cut_then_close", timeout=900,
         parts={"quick": ["j == %d and len(body) <= 2" % j for j in range(16)],
                "thorough": ["j == %d" % j for j in range(18)]},
         functions=["Protocol._on_connection_data_received", "HsmsProtocol._process_received_data/_on_disconnecting/_on_disconnected/"
                    "_on_connected/send_separate_req", "Protocol.send_message", "BlockSendInfo.wait", "ByteQueue"],
         bounds="arbitrary frame header, body <= 2 (thorough <= 4) bytes, cut at every offset j of the frame (0 = between frames), NOT_SELECTED / "
                "SELECTED, linktest timer idle or in the middle of its callback, then the close sequence of the connection, then a new connection with a Select.req",
         outside="TcpServerConnection/TcpClientConnection enable()/disable() stop-flag handshakes and TcpConnection.disconnect busy "
                 "waits (spin protocols around real sockets/select/sleep: not encodable, NOT claimed)"),
    dict(name="real_threads", fn="real_threads", kind="native", timeout=600,
         functions=["the same callbacks on real ProtocolDispatcher threads"],
         bounds="16 cut offsets x 2 session states, 3 s limit per disconnect (enumeration)"),
]
ASSUMPTIONS = ["a receiver parked in ByteQueue.wait_for never runs the send queue again (same thread); BlockSendInfo.wait with an "
               "unresolved block and no sender = wedge", "threading.Timer/Thread of the protocol replaced by recording stubs in cut_then_close"]
