"""C09: no peer behaviour wedges the endpoint - link loss at every byte offset ends in a clean, reusable state."""
import threading
import time
import types

from typing import List

from engine.chx import fin, pick
from oracles import refe37
from rigs import hsms as rig
from rigs.park import Park, ParkCondition
import secsgem.common.block_send_info as bsi
from secsgem.hsms.connection_state_machine import ConnectionState
import secsgem.hsms.protocol as hp


class Wedge(Exception):
    pass


def _instrument(p):
    """the protocol's single receiver/sender thread is modelled by one flag: once it is parked inside a data-only wait
    (ByteQueue.wait_for) it cannot run the send queue any more; a sender waiting for a block that nobody can send is a wedge"""
    state = {"parked": False}
    p._receive_buffer._buffer_lock = ParkCondition()

    def trigger():
        if state["parked"]:
            return
        p._process_send_queue()
        try:
            p._process_received_data()
        except Park:
            state["parked"] = True
    p._thread.trigger_receiver = trigger
    p._thread.queue_block = lambda source, block: p._dispatch_block(source, block)     # dispatcher inline
    return state


def _wait_or_wedge(self):
    if not self._result_trigger.is_set():
        raise Wedge("BlockSendInfo.wait with no thread left to send the block")
    return self._result == bsi.BlockSendResult.SENT_OK


def cut_then_close(hb: bytes, body: bytes, j: int, selected: bool, local: bool, linktest_running: bool) -> bool:
    """
    pre: len(hb) == 10 and hb[5] <= 9 and hb[5] != 8
    pre: len(body) <= 4
    pre: 0 <= j <= 14 + len(body)
    post: _
    """
    # the peer sent the first j bytes of a frame (j = 0: between frames; inside the length field, header or body), then the
    # connection ends: peer close (on_disconnecting + on_disconnected from the connection) or local disable (same callbacks)
    frame = bytes(refe37.frame(list(hb), list(body)))
    if j >= len(frame):
        return True
    p, c, delivered = rig.make_protocol()
    rig.set_state(p, 2 if selected else 1)
    st = _instrument(p)
    ft = rig.FakeThreading()
    hp.threading = ft
    bsi.BlockSendInfo.wait = _wait_or_wedge
    # the connected state owns its linktest timer; its callback may be in the middle of a Linktest transaction (waiting for T6)
    p._linktest_timer = ft.Timer(30, p._on_linktest_timer)
    p._linktest_timer.start()
    p._linktest_timer.running = linktest_running
    if j > 0:
        p._on_connection_data_received({"source": c, "data": frame[:j]})
    try:
        c._disconnecting = True
        p._on_disconnecting({"source": c})
        c._disconnecting = False
        p._on_disconnected({"source": c})
    except (Wedge, Park, rig.TimerBusy):
        return False                                      # disconnect handling would never finish (or only after T6)
    if p.connection_state.current != ConnectionState.NOT_CONNECTED or len(p._receive_buffer) != 0:
        return False
    # next connection: no stale bytes, select works again
    st["parked"] = False
    p._on_connected({"source": c})
    del c.wire[:]
    sel = bytes(refe37.frame(refe37.header(77, 0xFFFF, 0, 0, False, 0, 1), []))
    p._on_connection_data_received({"source": c, "data": sel})
    return fin(p.connection_state.current == ConnectionState.CONNECTED_SELECTED
               and [bytes(w) for w in c.wire] == [bytes(refe37.frame(refe37.header(77, 0xFFFF, 0, 0, False, 0, 2), []))])


def real_threads():
    """the same scenario on real threads for every cut offset of a 16-byte frame: disconnect handling must finish within 3 s,
    report NOT CONNECTED, and the next connection must select (replay rig for wedges; enumeration, no solver)"""
    import secsgem.hsms
    from secsgem.hsms.protocol import HsmsProtocol
    frame = bytes(refe37.frame(refe37.header(5, 0, 1, 1, True, 0, 0), [1, 2]))
    n = 0
    for selected in (False, True):
        for j in range(len(frame)):
            s = rig._Settings(connect_mode=secsgem.hsms.HsmsConnectMode.PASSIVE)
            s._c = rig.FakeConn(s)
            p = HsmsProtocol(s)
            c = p._connection
            c.on_connected({"source": c})
            if selected:
                c.on_data({"source": c, "data": bytes(refe37.frame(refe37.header(9, 0xFFFF, 0, 0, False, 0, 1), []))})
                t0 = time.time()
                while p.connection_state.current != ConnectionState.CONNECTED_SELECTED and time.time() - t0 < 3:
                    time.sleep(0.01)
            if j:
                c.on_data({"source": c, "data": frame[:j]})
            time.sleep(0.02)

            def close():
                c._disconnecting = True
                c.on_disconnecting({"source": c})
                c._disconnecting = False
                c.on_disconnected({"source": c})
            t = threading.Thread(target=close, daemon=True)
            t.start()
            t.join(3)
            n += 1
            if t.is_alive() or p.connection_state.current != ConnectionState.NOT_CONNECTED or len(p._receive_buffer) != 0:
                return {"state": "refuted", "reproduced": True, "cex": {"cut": j, "selected": selected, "hung": t.is_alive()},
                        "detail": "disconnect handling did not finish / state not NOT_CONNECTED / stale bytes"}
            c.on_connected({"source": c})
            del c.wire[:]
            c.on_data({"source": c, "data": bytes(refe37.frame(refe37.header(10, 0xFFFF, 0, 0, False, 0, 1), []))})
            t0 = time.time()
            while p.connection_state.current != ConnectionState.CONNECTED_SELECTED and time.time() - t0 < 3:
                time.sleep(0.01)
            ok = p.connection_state.current == ConnectionState.CONNECTED_SELECTED
            close()
            if not ok:
                return {"state": "refuted", "reproduced": True, "cex": {"cut": j, "selected": selected},
                        "detail": "no select on the next connection"}
    return {"state": "confirmed", "paths": n, "extra": "real threads, every cut offset of one frame, both session states"}


class _Stall(Exception):
    pass


def tcp_lifecycle(ops: List[int], n: int) -> bool:
    """
    pre: len(ops) <= 3
    pre: all(0 <= o <= 2 for o in ops)
    pre: 1 <= n <= 3
    post: _
    """
    # TcpConnection flag protocol over a history of connections on ONE object: op 0 = disable()/disconnect() while no receiver is
    # running (link already down), op 1 = a connection whose peer sends n bytes and closes, op 2 = a connection that is closed
    # locally (stop flag raised by disconnect() while the receiver loop runs). After any such history the next connection's
    # receiver reads what the peer sends, reports the close exactly once and leaves every flag at rest.
    import secsgem.common.tcp_connection as tc
    import secsgem.hsms

    class Conn(tc.TcpConnection):
        def enable(self):
            pass

        def disable(self):
            pass

    conn = Conn(secsgem.hsms.HsmsSettings())
    got, closed = [], []
    conn.on_data.register(lambda d: got.append(bytes(d["data"])))
    conn.on_disconnected.register(lambda d: closed.append(1))
    sleeps = [0]

    def sleep(_t):
        sleeps[0] += 1
        if sleeps[0] > 20:
            raise _Stall()                 # the receiver loop only sleeps: inbound bytes are never read

    class Sock:
        def __init__(self, chunks, local_close):
            self.chunks, self.local_close = list(chunks), local_close

        def fileno(self):
            return 3

        def recv(self, size):
            if self.local_close:
                # disconnect() from another thread: raises the flags the way the real method does up to its busy wait
                conn._disconnecting = True
                conn._stop_thread = True
                self.local_close = False
                raise OSError(11, "would block")
            return self.chunks.pop(0) if self.chunks else b""

        def close(self):
            pass

    tc.select.select = lambda r, w, x, t=None: (list(r), [], [])
    tc.format_hex = lambda d: ""
    tc.time = types.SimpleNamespace(sleep=sleep, time=time.time)      # only tcp_connection's view of the time module

    def connection(chunks, local_close):
        conn._sock = Sock(chunks, local_close)
        conn._connected = True
        try:
            conn._TcpConnection__receiver_thread()
        except _Stall:
            return False
        if local_close:
            conn._disconnecting = False    # the last statement of disconnect(), after its busy wait saw the thread end
        return True

    for o in ops:
        if o == 0:
            conn.disconnect()
        elif not connection([b"x"] if o == 1 else [], o == 2):
            return False
    del got[:], closed[:]
    payload = bytes(range(65, 65 + n))
    if not connection([payload], False):
        return False
    return fin(got == [payload] and closed == [1] and not conn._thread_running and not conn._stop_thread
               and not conn.disconnecting and not conn._connected)


def active_reselect(alive: bool, ran_first: bool, system: int) -> bool:
    """
    pre: 0 <= system < 2**32
    post: _
    """
    # active endpoint: the link is lost while NOT SELECTED (Select.req not answered). The thread of the first Select.req may still be
    # waiting out T6 (alive) when the next connection is established (T5 < T6), or it may not even have sent its request yet.
    # The new connection must get its own Select.req: exactly one, from a thread started for this connection.
    ft = rig.FakeThreading()
    hp.threading = ft
    p, c, delivered = rig.make_protocol(active=True)
    p._system_counter = system
    p._settings.timeouts.t6 = 0                            # a thread that runs gives up at once (virtual T6 expiry)
    p._on_connected({"source": c})
    first = [t for t in ft.threads if t.started]
    if len(first) != 1:
        return False
    if ran_first:
        first[0].target()                                  # sends Select.req, no answer
    first[0].is_alive = lambda: alive
    p._on_disconnecting({"source": c})
    p._on_disconnected({"source": c})
    if p.connection_state.current != ConnectionState.NOT_CONNECTED:
        return False
    del c.wire[:]
    p._on_connected({"source": c})
    second = [t for t in ft.threads if t.started and t is not first[0]]
    if len(second) != 1:
        return False                                       # nobody will send the Select.req of the new connection
    second[0].target()
    reqs = [bytes(f) for f in c.wire if len(f) == 14 and f[9] == 1]
    return fin(len(reqs) == 1 and p.connection_state.current == ConnectionState.CONNECTED_NOT_SELECTED)


def server_stop_handshake(k: int, kind: int) -> bool:
    """
    pre: 0 <= k <= 3 and 0 <= kind <= 2
    post: _
    """
    # disable() on a passive endpoint that is listening: it raises the stop flag, closes the listening socket and waits until the
    # accept thread has cleared the flag. The accept thread is inside (or in front of) its k-th select() call at that moment; that
    # call then times out (0), reports the closed socket readable (1) or raises like select on a closed socket does (2); every
    # later select()/accept() on the closed socket raises. The accept thread must end normally with the flag cleared - otherwise
    # disable() never returns.
    import errno
    import secsgem.common.tcp_server_connection as tsc
    import secsgem.hsms

    class Listen:
        def __init__(self, *a):
            self.closed = False

        def setsockopt(self, *a):
            pass

        def bind(self, addr):
            pass

        def listen(self, n):
            pass

        def fileno(self):
            return -1 if self.closed else 5

        def accept(self):
            if self.closed:
                raise OSError(errno.EBADF, "Bad file descriptor")
            raise AssertionError("harness: no peer ever connects in this scenario")

        def shutdown(self, how):
            pass

        def close(self):
            self.closed = True

    conn = tsc.TcpServerConnection(secsgem.hsms.HsmsSettings(connect_mode=secsgem.hsms.HsmsConnectMode.PASSIVE))
    calls = [0]

    def fake_select(r, w, x, timeout=None):
        n = calls[0]
        calls[0] += 1
        if n > 40:
            raise _Stall()
        sock = r[0]
        if n == k:
            # first half of disable(), executed by the disabling thread while this thread sits in select()
            conn._enabled = False
            conn._stop_server_thread = True
            sock.close()
            if kind == 0:
                return ([], [], [])
            if kind == 1:
                return ([sock], [], [])
            raise ValueError("file descriptor cannot be a negative integer (-1)")
        if sock.closed:
            raise ValueError("file descriptor cannot be a negative integer (-1)")
        return ([], [], [])

    tsc.select = types.SimpleNamespace(select=fake_select)
    tsc.socket = types.SimpleNamespace(socket=Listen, AF_INET=2, SOCK_STREAM=1, SOL_SOCKET=1, SO_REUSEADDR=2, SO_KEEPALIVE=9,
                                       SHUT_RDWR=2)
    conn._enabled = True
    try:
        conn._TcpServerConnection__server_thread()
    except _Stall:
        return False
    except Exception:
        return False          # the accept thread dies with an exception (stop flag still raised: disable() spins for ever)
    return fin(conn._stop_server_thread is False)


OBLIGATIONS = [
    dict(name="cut_then_close", fn="cut_then_close", timeout=900,
         parts={"quick": ["j == %d and len(body) <= 2" % j for j in range(16)],
                "thorough": ["j == %d" % j for j in range(18)]},
         functions=["Protocol._on_connection_data_received", "HsmsProtocol._process_received_data/_on_disconnecting/_on_disconnected/"
                    "_on_connected/send_separate_req", "Protocol.send_message", "BlockSendInfo.wait", "ByteQueue"],
         bounds="arbitrary frame header, body <= 2 (thorough <= 4) bytes, cut at every offset j of the frame (0 = between frames), NOT_SELECTED / "
                "SELECTED, linktest timer idle or in the middle of its callback, then the close sequence of the connection, then a new connection with a Select.req",
         outside="TcpServerConnection/TcpClientConnection enable()/disable() stop-flag handshakes (accept / connect threads around real "
                 "sockets: NOT claimed); the flag protocol of TcpConnection itself is tcp_lifecycle"),
    dict(name="tcp_lifecycle", fn="tcp_lifecycle", timeout=600,
         functions=["TcpConnection.disconnect", "TcpConnection.__receiver_thread/__receiver_thread_read_data"],
         bounds="one TcpConnection object, every history of <= 3 operations out of {disconnect() while no receiver runs, a connection "
                "closed by the peer, a connection closed locally}, then a connection on which the peer sends 1..3 bytes and closes: "
                "bytes delivered, close reported once, flags at rest; socket/select/sleep are contract stubs, each connection's "
                "receiver runs to completion (sequential)",
         outside="preemption between disconnect() and the receiver thread (busy-wait spin protocol on real threads); accept/connect threads"),
    dict(name="active_reselect", fn="active_reselect", timeout=300,
         functions=["HsmsProtocol._on_connected/_on_state_connect/_send_select_req_thread/send_select_req/_on_disconnecting/_on_disconnected"],
         bounds="active endpoint, link lost while NOT SELECTED, the first Select.req thread still alive (waiting for T6) or finished, its "
                "request sent or not, any system-bytes counter: the next connection gets exactly one Select.req of its own",
         outside="real timers (T5/T6 as wall-clock values)"),
    dict(name="server_stop_handshake", fn="server_stop_handshake", timeout=300,
         functions=["TcpServerConnection.__server_thread (accept loop) against the first half of TcpServerConnection.disable"],
         bounds="disable() arriving while the accept thread is in its 1st..4th select() call; that call times out, reports the closed "
                "socket readable or raises; later select/accept on the closed socket raise: the accept thread ends with the stop "
                "flag cleared (disable() returns)",
         outside="a peer connecting at the same moment; the client connection's connect thread; real socket/kernel behaviour beyond "
                 "the stub contract"),
    dict(name="real_threads", fn="real_threads", kind="native", timeout=600,
         functions=["the same callbacks on real ProtocolDispatcher threads"],
         bounds="16 cut offsets x 2 session states, 3 s limit per disconnect (enumeration)"),
]
ASSUMPTIONS = ["a receiver parked in ByteQueue.wait_for never runs the send queue again (same thread); BlockSendInfo.wait with an "
               "unresolved block and no sender = wedge", "threading.Timer/Thread of the protocol replaced by recording stubs in cut_then_close"]
