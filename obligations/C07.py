"""C07: the GEM communication state follows the E30 establish-communications model - one inductive step per state."""
from engine.chx import fin, pick
from rigs import gem as rig
from rigs.hsms import FakeThreading
import secsgem.gem.communication_state_machine as csm_mod
from secsgem.gem.communication_state_machine import CommunicationState
from secsgem.common.state_machine import WrongSourceStateError
from secsgem.secs import functions as F

DISABLED, NOT_COMM, WAIT_CRA, WAIT_DELAY, COMM = range(5)
_CS = [CommunicationState.DISABLED, CommunicationState.NOT_COMMUNICATING, CommunicationState.WAIT_CRA,
       CommunicationState.WAIT_DELAY, CommunicationState.COMMUNICATING]
EV_ENABLE, EV_DISABLE, EV_SELECTED, EV_LOST, EV_S1F13, EV_S1F14, EV_OTHER, EV_T_CRA, EV_T_DELAY = range(9)
OUT_SYS = 4242            # system bytes of the S1F13 this side has outstanding in WAIT_CRA


def _handler(host, state, delay, user_commack):
    ft = FakeThreading()
    csm_mod.threading = ft
    h, p = rig.make_host() if host else rig.make_equipment(symbolic=False)
    h.settings.establish_communication_timeout = delay
    cm = h._communication_state
    st = [cm.disabled, cm.not_communicating, cm.wait_cra, cm.wait_delay, cm.communicating][state]
    for name in ("disabled", "enabled", "not_communicating", "host_initiated_connect", "wait_cr_from_host",
                 "equipment_initiated_connect", "wait_delay", "wait_cra", "communicating"):
        s = getattr(cm, name, None)          # the three sub-states never entered by the library are optional
        if s is not None:
            s._active = False
    cm._current_state = st
    st._active = True
    if state != DISABLED:
        cm.enabled._active = True
    h.on_commack_requested = lambda: user_commack
    calls = []
    h.register_stream_function(1, 1, lambda handler, message: calls.append(message) or None)
    return h, p, ft, calls


def _possible(state, event):
    """events that cannot occur in a state (a timer only exists in its state; no link without being enabled)"""
    if event == EV_ENABLE:
        return state == DISABLED
    if state == DISABLED:
        return False
    if event == EV_T_CRA:
        return state == WAIT_CRA
    if event == EV_T_DELAY:
        return state == WAIT_DELAY
    if event == EV_SELECTED:
        return state == NOT_COMM          # the link is selected once per connection, while NOT COMMUNICATING
    return True


_OTHERS = [(1, 1), (2, 13), (2, 14), (5, 13), (64, 14), (1, 3), (6, 11)]     # not S1F13 / S1F14, but look-alikes (SxF13, SxF14)


def _other(k, system):
    s_, f_ = pick(_OTHERS, k)
    if (s_, f_) == (1, 1):
        return rig.msg(F.SecsS01F01(), system, True)
    return rig.Msg(s_, f_, f_ % 2 == 1, system, b"")


def _fire(h, p, cm, host, event, commack, system, other=0):
    if event == EV_ENABLE:
        cm.enable()
    elif event == EV_DISABLE:
        cm.disable()
    elif event == EV_SELECTED:
        p.events.fire("communicating", {"connection": p})
    elif event == EV_LOST:
        p.events.fire("disconnected", {"connection": p})
    elif event == EV_S1F13:
        h._on_message_received({"message": rig.msg(F.SecsS01F13([] if not host else ["m", "1"]), system, True)})
    elif event == EV_S1F14:
        if commack == 256:
            # COMMACK item present but with zero length (wire bytes 21 00): not an acceptance
            h._on_message_received({"message": rig.Msg(1, 14, False, system, bytes([0x01, 0x02, 0x21, 0x00, 0x01, 0x00]))})
        else:
            h._on_message_received({"message": rig.msg(F.SecsS01F14({"COMMACK": commack, "MDLN": []}), system, False)})
    elif event == EV_OTHER:
        h._on_message_received({"message": _other(other, system)})
    elif event == EV_T_CRA:
        cm._on_wait_cra_timeout()
    else:
        cm._on_wait_comm_delay_timeout()


def _allowed(state, event, commack, system, user_commack):
    """E30 establish-communications model: the set of states the step may end in"""
    if event == EV_ENABLE:
        return [NOT_COMM]
    if event == EV_DISABLE:
        return [DISABLED]
    if event == EV_SELECTED:
        return [WAIT_CRA]
    if event == EV_LOST:
        return [NOT_COMM] if state == COMM else [state, NOT_COMM]
    if event == EV_T_CRA:
        return [WAIT_DELAY]
    if event == EV_T_DELAY:
        return [WAIT_CRA]
    if event == EV_OTHER:
        return [WAIT_DELAY, WAIT_CRA] if state == WAIT_DELAY else [state]
    if event == EV_S1F14:
        if state == WAIT_CRA:
            if commack == 0 and system == OUT_SYS:
                return [COMM]
            return [WAIT_CRA, WAIT_DELAY]        # refused, or not the answer to the outstanding request
        if state == WAIT_DELAY:
            return [WAIT_DELAY, WAIT_CRA]        # E30 transition 8: any message other than S1F13 may end the delay (late S1F14 included)
        return [state]
    # inbound S1F13
    if state == COMM:
        return [COMM]
    if state == WAIT_CRA:
        return [COMM] if user_commack == 0 else [WAIT_CRA, WAIT_DELAY]
    if state == WAIT_DELAY:
        return [COMM, WAIT_DELAY] if user_commack == 0 else [WAIT_DELAY]
    return [state]


def _consistent(h, cm, ft, delay):
    """what the handler reports and the pending (virtual) timers agree with the current state"""
    now = cm.current
    if h.waitfor_communicating(0) != (now == _CS[COMM]):
        return False
    pending = [t for t in ft.timers if t.started and not t.cancelled and not getattr(t, "fired", False)]
    if now == _CS[WAIT_CRA]:
        return len(pending) == 1 and pending[0].interval == h.settings.timeouts.t3
    if now == _CS[WAIT_DELAY]:
        return len(pending) == 1 and pending[0].interval == delay
    return len(pending) == 0


def _enter_timers(cm, state):
    """a constructed WAIT_CRA / WAIT_DELAY pre-state owns the timer its real entry would have started"""
    if state == WAIT_CRA:
        cm._on_state_wait_cra({})
    elif state == WAIT_DELAY:
        cm._on_state_wait_delay({})


def _mark_fired(ft, event):
    if event in (EV_T_CRA, EV_T_DELAY):
        for t in ft.timers:
            if t.started and not t.cancelled:
                t.fired = True             # the expiring timer itself is consumed by its expiry


def comm_step(host: bool, state: int, event: int, commack: int, system: int, delay: int, user_commack: int, other: int) -> bool:
    """
    pre: 0 <= state <= 4 and 0 <= event <= 8
    pre: 0 <= commack <= 256 and 0 <= system < 2**32 and 1 <= delay <= 100000 and 0 <= user_commack <= 1
    pre: 0 <= other < 7
    post: _
    """
    if not _possible(state, event):
        return True
    h, p, ft, calls = _handler(host, state, delay, user_commack)
    cm = h._communication_state
    _enter_timers(cm, state)
    _mark_fired(ft, event)
    try:
        _fire(h, p, cm, host, event, commack, system, other)
    except WrongSourceStateError:
        return False
    now = cm.current
    s1f13_out = [x for x in p.sent if x[1].stream == 1 and x[1].function == 13]
    s1f14_out = [x for x in p.sent if x[1].stream == 1 and x[1].function == 14]
    # no application message reaches a user callback unless communication was established when it arrived
    if calls and state != COMM:
        return False
    if not any(now == _CS[a] for a in _allowed(state, event, commack, system, user_commack)):
        return False
    if not _consistent(h, cm, ft, delay):
        return False
    if event in (EV_SELECTED, EV_T_DELAY):
        return fin(len(s1f13_out) == 1)                       # entering WAIT_CRA puts exactly one S1F13 on the wire
    if event == EV_OTHER and state == COMM:
        return fin(len(calls) == (1 if other == 0 else 0))
    if event == EV_OTHER and s1f14_out:
        return False                                          # only an S1F13 may be answered with S1F14
    if event == EV_S1F13 and (state == COMM or now == _CS[COMM]):
        # answered exactly once with the request's system bytes; established only with COMMACK 0
        return fin(len(s1f14_out) == 1 and s1f14_out[0][2] == system
                   and (state == COMM or s1f14_out[0][1].get()["COMMACK"] == 0))
    return fin(True)


def two_steps(host: bool, state: int, e1: int, e2: int, commack: int, system: int, delay: int, user_commack: int) -> bool:
    """
    pre: 0 <= state <= 4 and 0 <= e1 <= 8 and 0 <= e2 <= 8
    pre: 0 <= commack <= 1 and 4241 <= system <= 4242 and 1 <= delay <= 100000 and 0 <= user_commack <= 1
    post: _
    """
    # the second step starts from a state the library reached itself (timers, report flags as the real entry left them)
    if not _possible(state, e1):
        return True
    h, p, ft, calls = _handler(host, state, delay, user_commack)
    cm = h._communication_state
    _enter_timers(cm, state)
    _mark_fired(ft, e1)
    try:
        _fire(h, p, cm, host, e1, commack, system)
    except WrongSourceStateError:
        return False
    mid = [i for i in range(5) if cm.current == _CS[i]][0]
    if not any(mid == a for a in _allowed(state, e1, commack, system, user_commack)) or not _consistent(h, cm, ft, delay):
        return False
    if not _possible(mid, e2):
        return True
    del calls[:]
    _mark_fired(ft, e2)
    try:
        _fire(h, p, cm, host, e2, commack, system)
    except WrongSourceStateError:
        return False
    if calls and mid != COMM:
        return False
    return fin(any(cm.current == _CS[a] for a in _allowed(mid, e2, commack, system, user_commack))
               and _consistent(h, cm, ft, delay))


OBLIGATIONS = [
    dict(name="comm_step", fn="comm_step", timeout=600, parts=["event == %d" % i for i in range(9)],
         functions=["GemHandler._on_message_received/_on_communicating/_on_state_wait_cra/_on_state_communicating/on_connection_closed",
                    "CommunicationStateMachine transitions and timer callbacks", "SecsHandler._handle_stream_function"],
         bounds="host and equipment role; every communication state; events enable, disable, link selected, link lost (protocol "
                "'disconnected' event), inbound S1F13, S1F14 with any COMMACK byte or a zero-length COMMACK item and any system bytes (matching the outstanding S1F13 "
                "or not), 7 other messages incl. SxF13/SxF14 look-alikes, WAIT_CRA timer expiry, delay timer expiry; establish-communications delay 1..100000 symbolic",
         outside="wall-clock behaviour of real threading.Timer; races between the timer thread and the dispatcher",
         findings=[dict(id="C07-s1f14-any", pred="event == 5 and state == 2 and commack != 0"),
                   dict(id="C07-s1f14-stale", pred="event == 5 and state == 2 and commack == 0 and system != 4242"),
                   dict(id="C07-s1f13-refused", pred="event == 4 and state == 2 and user_commack != 0"),
                   dict(id="C07-link-loss-not-wired", pred="event == 3 and state >= 2")]),
]
OBLIGATIONS.append(
    dict(name="two_steps", fn="two_steps", timeout=600, parts=["state == %d" % i for i in range(5)],
         functions=["same as comm_step, two consecutive events; the second pre-state is the one the library produced"],
         bounds="every state x every pair of events; COMMACK 0/1, matching / non-matching system bytes; after each step the report of "
                "waitfor_communicating(0) and the pending virtual timers must agree with the state (stale timers of an earlier state "
                "visit, or a 'communicating' report that survives disable, are violations)",
         findings=[dict(id="C07-s1f14-stale", pred="commack == 0 and system != 4242 and ((e1 == 5 and state == 2) or e2 == 5)")]))
ASSUMPTIONS = ["communication state constructed directly; timers virtual (recorded interval/callback)",
               "the S1F13 outstanding in WAIT_CRA carries system bytes 4242 (the library keeps no record of them)"]
