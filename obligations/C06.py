"""C06: replies reach exactly their requester; other messages are delivered once, in order (sequential steps + lifecycle;
the interleaving part for the system-bytes counter is the E3 obligation counter_schedules)."""
import queue
import threading
import time

from crosshair.simplestructs import SimpleDict

from engine.chx import fin, pick
from rigs import hsms as rig
from rigs.gem import RigSettings
import secsgem.common
from secsgem.common.protocol import Protocol
from secsgem.common.protocol_dispatcher import ProtocolDispatcher
from secsgem.hsms.header import HsmsHeader, HsmsSType
from secsgem.hsms.message import HsmsBlock, HsmsMessage
from secsgem.secsi.protocol import SecsIProtocol
from secsgem.secsi.header import SecsIHeader
from secsgem.secsi.message import SecsIMessage
from secsgem.secs import functions as F


def counter_sequential(start: int, o1: int, o2: int, n: int) -> bool:
    """
    pre: 0 <= start < 2**32 and 0 <= o1 < 2**32 and 0 <= o2 < 2**32
    pre: 1 <= n <= 3
    post: _
    """
    # ids issued one after the other are pairwise distinct, stay inside 32 bit, and wrap around at 2^32
    p, c, delivered = rig.make_protocol()           # a real protocol object (whatever attributes the method needs exist)
    p._system_counter = start
    ids = [p.get_next_system_counter() for _ in range(n)]
    for i, x in enumerate(ids):
        if not 0 <= x < 2**32:
            return False
        if any(x == y for y in ids[:i]):
            return False
        want = (start + 1 + i) % (2**32)
        # the value after 2^32 - 1 is 0 (the implementation may use any wrap as long as ids stay distinct)
        if x != want:
            return False
    return fin(True)


def hsms_routing(o1: int, o2: int, n_open: int, s1: int, s2: int, w: bool) -> bool:
    """
    pre: 0 <= o1 < 2**32 and 0 <= o2 < 2**32 and o1 != o2 and 0 <= n_open <= 2
    pre: 0 <= s1 < 2**32 and 0 <= s2 < 2**32
    post: _
    """
    # SELECTED, n_open requests outstanding; two data messages arrive: each goes to exactly the queue with equal system
    # bytes, otherwise exactly one message_received event, in arrival order
    p, c, delivered = rig.make_protocol()
    rig.set_state(p, 2)
    opens = [o1, o2][:n_open]
    queues = [p._get_queue_for_system(o) for o in opens]
    for s in (s1, s2):
        p._dispatch_block(p, HsmsBlock(HsmsHeader(s, 0, 1, 2, w, 0, HsmsSType.DATA_MESSAGE), b""))
    want_q = [[], []]
    want_d = []
    for s in (s1, s2):
        hit = [i for i, o in enumerate(opens) if o == s]
        if hit:
            want_q[hit[0]].append(s)
        else:
            want_d.append(s)
    got_d = [m.header.system for m in delivered]
    if got_d != want_d:
        return False
    for i, q in enumerate(queues):
        got = []
        while not q.empty():
            got.append(q.get_nowait().header.system)
        if got != want_q[i]:
            return False
    return fin(True)


def secsi_routing(o1: int, n_open: int, s1: int, s2: int) -> bool:
    """
    pre: 0 <= o1 < 2**32 and 0 <= n_open <= 1
    pre: 0 <= s1 < 2**32 and 0 <= s2 < 2**32
    post: _
    """
    p = SecsIProtocol.__new__(SecsIProtocol)
    from secsgem.secsi.settings import SecsISettings
    Protocol.__init__(p, SecsISettings(port="RIG", device_type=secsgem.common.DeviceType.HOST))
    p._response_queues = SimpleDict([])
    p._incomplete_messages = SimpleDict([])
    delivered = []
    p.events.message_received += lambda d: delivered.append(d["message"])
    q = p._get_queue_for_system(o1) if n_open else None
    for s in (s1, s2):
        blk = SecsIMessage(SecsIHeader(s, 1, 1, 2, 1, False, False, True), b"").blocks[0]
        p._dispatch_block(p, blk)
    want_d = [s for s in (s1, s2) if not (n_open and s == o1)]
    want_q = [s for s in (s1, s2) if n_open and s == o1]
    got_q = []
    while q is not None and not q.empty():
        got_q.append(q.get_nowait().header.system)
    return fin([m.header.system for m in delivered] == want_d and got_q == want_q)


def waitfor_bookkeeping(start: int, outcome: int, other: int) -> bool:
    """
    pre: 0 <= start < 2**32 and 0 <= other < 2**32
    pre: 0 <= outcome <= 3
    post: _
    """
    # outcome 0: the reply arrives while the request is being sent; 1: send fails; 2: no reply (timeout);
    # 3: a reply with other system bytes arrives instead (must not be returned to this caller)
    p, c, delivered = rig.make_protocol()
    rig.set_state(p, 2)
    p._system_counter = start
    p._settings.timeouts.t3 = 0
    mine = (start + 1) % 2**32
    if outcome == 3 and other == mine:
        return True
    registered = []
    real_send = c.send_data

    def send(data):
        registered.append(any(k == mine for k in p._response_queues.keys()))   # the queue exists before the bytes leave
        if outcome == 1:
            return False
        ok = real_send(data)
        if outcome in (0, 3):
            sysb = mine if outcome == 0 else other
            p._dispatch_block(p, HsmsBlock(HsmsHeader(sysb, 0, 1, 2, False, 0, HsmsSType.DATA_MESSAGE), b""))
        return ok
    c.send_data = send
    r = p.send_and_waitfor_response(F.SecsS01F01())
    if len(p._response_queues) != 0 or registered != [True]:
        return False
    if outcome == 0:
        return fin(r is not None and r.header.system == mine and delivered == [])
    if outcome == 3:
        return fin(r is None and [m.header.system for m in delivered] == [other])
    return fin(r is None)


def two_requests(start: int, dup: bool) -> bool:
    """
    pre: 0 <= start < 2**32
    post: _
    """
    # request A is answered (its reply even arrives twice when dup); request B, issued afterwards, must get exactly its own
    # reply - nothing left over from A's transaction may reach B
    p, c, delivered = rig.make_protocol()
    rig.set_state(p, 2)
    p._system_counter = start
    p._settings.timeouts.t3 = 0
    real_send = c.send_data
    state = {"n": 0}

    def send(data):
        ok = real_send(data)
        state["n"] += 1
        sysb = (start + state["n"]) % 2**32
        # the peer answers S1F2 for the first request and S1F4 for the second one
        fn = 2 if state["n"] == 1 else 4
        for _ in range(2 if (dup and state["n"] == 1) else 1):
            p._dispatch_block(p, HsmsBlock(HsmsHeader(sysb, 0, 1, fn, False, 0, HsmsSType.DATA_MESSAGE), b""))
        return ok
    c.send_data = send
    r1 = p.send_and_waitfor_response(F.SecsS01F01())
    r2 = p.send_and_waitfor_response(F.SecsS01F03([]))
    if r1 is None or r2 is None:
        return False
    return fin(r1.header.system == (start + 1) % 2**32 and r1.header.function == 2
               and r2.header.system == (start + 2) % 2**32 and r2.header.function == 4 and len(p._response_queues) == 0)


def counter_schedules():
    """E3: two threads call the real get_next_system_counter at once; z3 searches all schedules of the real bytecode for one that
    hands out the same system bytes twice (any start value, incl. the wrap at 2^32). A model is replayed on real threads."""
    import dis
    import z3
    from engine import ilv
    fn = Protocol.get_next_system_counter
    ins = [i for i in dis.get_instructions(fn) if i.opname != "CACHE"]
    locks = tuple(a.argval for a, b in zip(ins, ins[1:]) if a.opname == "LOAD_ATTR" and b.opname == "BEFORE_WITH")
    try:
        prog = ilv.Program(fn, lock_attrs=locks)
        # reachability witness: both threads can finish and return different ids
        w = ilv.search(prog, 2, lambda sh: [sh["_system_counter"] == 5], lambda rets, sh: rets[0] != rets[1], timeout_ms=120000)
        if w["result"] != "sat":
            return {"state": "unknown", "extra": {"witness": w}}
        r = ilv.search(prog, 2, lambda sh: [sh["_system_counter"] >= 0, sh["_system_counter"] < 2**32],
                       lambda rets, sh: z3.Or(rets[0] == rets[1], rets[0] < 0, rets[0] >= 2**32, rets[1] < 0, rets[1] >= 2**32),
                       timeout_ms=400000)
    except ilv.Unsupported as e:
        return {"state": "unknown", "extra": "bytecode outside the E3 subset: " + str(e)}
    extra = {"bytecode": prog.describe(), "locks": list(locks), "threads": 2, "steps": r["steps"], "witness_rets": w.get("rets"),
             "granularity": "thread switch between any two bytecodes; switches only considered after shared-state bytecodes (POR)"}
    if r["result"] == "unsat":
        return {"state": "confirmed", "solver_calls": 2, "solver_s": r["solver_s"] + w["solver_s"], "paths": r["steps"], "extra": extra}
    if r["result"] != "sat":
        return {"state": "unknown", "extra": extra}

    def mk():
        p, c, delivered = rig.make_protocol(symbolic_tables=False)
        p._system_counter = r["start"]["_system_counter"]
        return p
    got = ilv.replay(fn, mk, r["schedule"], 2)
    rep = got[0] is not None and got[0] == got[1]
    return {"state": "refuted", "reproduced": rep, "cex": {"start": r["start"], "schedule": r["schedule"], "model_returns": r["rets"],
                                                            "replayed_returns": got},
            "detail": "two concurrent callers received identical system bytes", "extra": extra}


def dispatcher_lifecycle():
    """start/stop sequences of the real ProtocolDispatcher with real threads: at most one live receiver and one live
    dispatcher thread at any time, none after stop (finite enumeration of all sequences of length <= 4, no solver)"""
    import itertools
    n = 0
    for length in range(1, 5):
        for seq in itertools.product("SX", repeat=length):          # S = start (only when stopped), X = stop
            d = ProtocolDispatcher(lambda: None, lambda *a: None, RigSettings())
            created = []
            running = False
            for op in seq:
                if op == "S" and not running:
                    d.start()
                    created += [d._receiver_thread, d._dispatcher_thread]
                    running = True
                elif op == "X" and running:
                    d.stop()
                    running = False
                time.sleep(0.02)
                alive_r = [t for t in created if t.is_alive() and "receiver" in t.name]
                alive_d = [t for t in created if t.is_alive() and "dispatcher" in t.name]
                want = 1 if running else 0
                if len(alive_r) != want or len(alive_d) != want:
                    if running:
                        d.stop()
                    return {"state": "refuted", "reproduced": True,
                            "cex": {"sequence": "".join(seq), "live_receivers": len(alive_r), "live_dispatchers": len(alive_d)},
                            "detail": "more or fewer live consumer threads than the running state allows"}
            n += 1
            if running:
                d.stop()
    return {"state": "confirmed", "paths": n, "extra": "exhaustive enumeration of start/stop sequences up to length 4 on real threads"}


# ---- E3b: receiver/dispatcher hand-over under preemption (statement-level schedules of the real thread functions) -----------
from engine import stmt  # noqa: E402


class ReplayMismatch(Exception):
    """the schedule found in the statement-level model does not reproduce on real threads: harness problem, not a violation"""


def _gen_of(fn):
    try:    # rewritten from the current source at import time (inspect.getsource is unreliable under CrossHair's tracing)
        return stmt.steps(fn), None
    except Exception as e:  # noqa
        return None, e


_G_DISPATCH, _E1 = _gen_of(ProtocolDispatcher._dispatcher_thread_function)
_G_QUEUE, _E2 = _gen_of(ProtocolDispatcher.queue_block)
_G_RECEIVE, _E3 = _gen_of(ProtocolDispatcher._receiver_thread_function)
_G_TRIGGER, _E4 = _gen_of(ProtocolDispatcher.trigger_receiver)


def _is_concrete(*xs):
    return all(type(x) in (int, bool) for x in xs)


def dispatcher_wakeup(first: int, p1: int, p2: int, p3: int, nblocks: int) -> bool:
    """
    pre: 0 <= first <= 1 and 0 <= p1 <= p2 <= p3 <= 60
    pre: 1 <= nblocks <= 3
    post: _
    """
    # logical thread 0: the dispatcher thread function; logical thread 1: the receive path queueing nblocks blocks one after the
    # other. Whatever the schedule, when both have come to rest (producer done, dispatcher waiting for its trigger) every block
    # was handed to the target exactly once and in order - nothing is left in the queue without a pending wake-up.
    for e in (_E1, _E2):
        if e is not None:
            raise e
    nblocks = 1 if nblocks == 1 else (2 if nblocks == 2 else 3)          # concrete from here on
    delivered = []
    d = ProtocolDispatcher(lambda: None, lambda src, blk: delivered.append(blk), RigSettings())

    def producer():
        for i in range(nblocks):
            yield from _G_QUEUE(d, "src", i)

    results, order = stmt.run([lambda: _G_DISPATCH(d), producer], first, [p1, p2, p3])
    ok = results[1] == ("ret", None) and results[0] == ("deadlock",) and delivered == list(range(nblocks)) \
        and d._dispatch_queue.qsize() == 0
    if ok:
        return fin(True)
    if _is_concrete(first, p1, p2, p3, nblocks):
        delivered2 = []
        d2 = ProtocolDispatcher(lambda: None, lambda src, blk: delivered2.append(blk), RigSettings())

        def produce2():
            for i in range(nblocks):
                d2.queue_block("src", i)
        try:
            stmt.replay_lines([ProtocolDispatcher._dispatcher_thread_function, ProtocolDispatcher.queue_block],
                              [d2._dispatcher_thread_function, produce2], order, timeout=2.0)
            time.sleep(0.2)
            real_ok = delivered2 == list(range(nblocks)) and d2._dispatch_queue.qsize() == 0
        finally:
            d2._stop_dispatcher_thread = True
            d2._dispatcher_thread_trigger.set()
        if real_ok:
            raise ReplayMismatch("model: delivered %r queue %d results %r; real threads delivered %r" % (
                delivered, d._dispatch_queue.qsize(), results, delivered2))
    return False


class _ArrivalEvent:
    """the receiver trigger; new input becomes available in the same step that raises the trigger (the connection thread appends
    to the buffer and then calls trigger_receiver) - not glued to the previous trigger"""

    def __init__(self, ev, box):
        self._ev, self._box = ev, box

    def set(self):
        self._box["input"] += 1
        self._ev.set()

    def wait(self, *a, **k):
        return self._ev.wait(*a, **k)

    def clear(self):
        self._ev.clear()

    def is_set(self):
        return self._ev.is_set()


def receiver_wakeup(first: int, p1: int, p2: int, p3: int, ntriggers: int) -> bool:
    """
    pre: 0 <= first <= 1 and 0 <= p1 <= p2 <= p3 <= 60
    pre: 1 <= ntriggers <= 3
    post: _
    """
    # logical thread 0: the receiver thread function; logical thread 1: ntriggers calls of trigger_receiver, each after new input
    # became available (input counter). When both have come to rest the receiver target has run at least once after the last
    # input arrived: no trigger is lost.
    for e in (_E3, _E4):
        if e is not None:
            raise e
    ntriggers = 1 if ntriggers == 1 else (2 if ntriggers == 2 else 3)   # concrete from here on
    box = {"input": 0, "seen": 0}

    def target():
        box["seen"] = box["input"]
    d = ProtocolDispatcher(target, lambda *a: None, RigSettings())

    def producer():
        for _ in range(ntriggers):
            g = _G_TRIGGER(d)
            yield next(g)                 # schedule point in front of "new input + trigger"
            box["input"] += 1             # the input arrives in the step that raises the trigger, not glued to the previous one
            while True:
                try:
                    ann = next(g)
                except StopIteration:
                    break
                yield ann

    results, order = stmt.run([lambda: _G_RECEIVE(d), producer], first, [p1, p2, p3])
    if results[1] == ("ret", None) and results[0] == ("deadlock",) and box["seen"] == ntriggers:
        return fin(True)
    if _is_concrete(first, p1, p2, p3, ntriggers):
        box2 = {"input": 0, "seen": 0}

        def target2():
            box2["seen"] = box2["input"]
        d2 = ProtocolDispatcher(target2, lambda *a: None, RigSettings())
        d2._receiver_thread_trigger = _ArrivalEvent(d2._receiver_thread_trigger, box2)

        def produce2():
            for _ in range(ntriggers):
                d2.trigger_receiver()
        try:
            stmt.replay_lines([ProtocolDispatcher._receiver_thread_function, ProtocolDispatcher.trigger_receiver],
                              [d2._receiver_thread_function, produce2], order, timeout=2.0)
            time.sleep(0.2)
            real_ok = box2["seen"] == ntriggers
        finally:
            d2._stop_receiver_thread = True
            d2._receiver_thread_trigger.set()
        if real_ok:
            raise ReplayMismatch("model: seen %r results %r; real threads seen %r" % (box["seen"], results, box2["seen"]))
    return False


OBLIGATIONS = [
    dict(name="counter_sequential", fn="counter_sequential", timeout=120, functions=["Protocol.get_next_system_counter"],
         bounds="any start value incl. the wrap at 2^32, 1..3 consecutive ids"),
    dict(name="hsms_routing", fn="hsms_routing", timeout=300,
         functions=["HsmsProtocol._on_connection_message_received (routing by system bytes)", "Protocol._dispatch_block/_get_queue_for_system"],
         bounds="0..2 outstanding requests with arbitrary distinct system bytes, two inbound data messages with arbitrary system bytes"),
    dict(name="secsi_routing", fn="secsi_routing", timeout=300, functions=["SecsIProtocol._on_connection_message_received"],
         bounds="0..1 outstanding request, two inbound single-block messages, arbitrary system bytes"),
    dict(name="waitfor_bookkeeping", fn="waitfor_bookkeeping", timeout=300,
         functions=["Protocol.send_and_waitfor_response/_get_queue_for_system/_remove_queue", "HsmsProtocol.send path"],
         bounds="any counter start; reply during send / send failure / timeout / foreign reply: queue registered before sending, "
                "removed afterwards, only the matching reply returned"),
    dict(name="counter_schedules", fn="counter_schedules", kind="native", timeout=900,
         functions=["Protocol.get_next_system_counter (live bytecode via dis, CPython 3.12)"],
         bounds="2 threads, one call each, every schedule of the bytecodes (56 steps), every start value 0..2^32-1; replay of a model on "
                "real threads with sys.monitoring INSTRUCTION hand-over",
         outside="3 or more threads (z3 did not decide the 84-step system in 200 s); more than one call per thread"),
    dict(name="two_requests", fn="two_requests", timeout=300,
         functions=["Protocol.send_and_waitfor_response twice", "queue registration / removal"],
         bounds="any counter start; first reply delivered once or twice; the second requester gets only its own reply"),
    dict(name="dispatcher_wakeup", fn="dispatcher_wakeup", timeout={"quick": 600, "thorough": 1800},
         parts={"quick": ["nblocks == 2 and p3 == 60 and first == %d" % f for f in (0, 1)],
                "thorough": ["nblocks == %d and first == %d and p1 %s" % (n, f, r) for n in (1, 2, 3) for f in (0, 1)
                             for r in ("< 8", ">= 8 and p1 < 16", ">= 16")]},
         functions=["ProtocolDispatcher._dispatcher_thread_function and queue_block (statement-level generators regenerated from "
                    "their source by engine/stmt; real threading.Event and queue.Queue objects)"],
         bounds="dispatcher thread against the receive path queueing 1..3 blocks (quick: 2); thread switches before any statement / "
                "loop test of the two functions, <= 3 preemptions (quick: 2) at any position; at rest every block was delivered once, in "
                "order, queue empty; counterexamples replayed on real threads (sys.monitoring LINE hand-over)",
         outside="switches inside queue.Queue / Event methods (C level, atomic under the GIL); > 3 preemptions; > 3 blocks; "
                 "several producers"),
    dict(name="receiver_wakeup", fn="receiver_wakeup", timeout={"quick": 600, "thorough": 1800},
         parts={"quick": ["ntriggers == 2 and p3 == 60 and first == %d" % f for f in (0, 1)],
                "thorough": ["ntriggers == %d and first == %d" % (n, f) for n in (1, 2, 3) for f in (0, 1)]},
         functions=["ProtocolDispatcher._receiver_thread_function and trigger_receiver (statement-level generators)"],
         bounds="receiver thread against 1..3 triggers (quick: 2), <= 3 preemptions (quick: 2): at rest the receiver target ran after the "
                "last input arrived (no lost trigger)",
         outside="as dispatcher_wakeup"),
    dict(name="dispatcher_lifecycle", fn="dispatcher_lifecycle", kind="native", timeout=300,
         functions=["ProtocolDispatcher.start/stop/_receiver_thread_function/_dispatcher_thread_function"],
         bounds="all start/stop sequences of length <= 4 on real threads (enumeration)"),
]
ASSUMPTIONS = ["single-threaded rig (inline sender); T3 = 0 for the timeout case"]
