"""C15: SML text of any item parses back to the same item; the parser terminates and rejects unclosed / unknown items."""
from typing import List

from engine.chx import fin, pick
from secsgem.secs.item import Item
from secsgem.secs.item_str import ItemA, ItemJ
from secsgem.secs.item_b import ItemB
from secsgem.secs.item_boolean import ItemBOOLEAN
from secsgem.secs.item_l import ItemL
from secsgem.secs.item_number import ItemU1, ItemU2, ItemU4, ItemU8, ItemI1, ItemI2, ItemI4, ItemI8, ItemF4, ItemF8


def _same_tree(a, b):
    if type(a) is not type(b):
        return False
    if isinstance(a, ItemL):
        return len(a._value) == len(b._value) and all(_same_tree(x, y) for x, y in zip(a._value, b._value))
    return a._value == b._value


def _roundtrip(it):
    text = it.to_sml()
    try:
        back = Item.from_sml(text)
    except Exception:
        return False
    return _same_tree(it, back) and back.encode() == it.encode()


def str_roundtrip(s: str, pre_n: int) -> bool:
    """
    pre: len(s) <= 3
    pre: all(ord(c) < 256 for c in s)
    pre: len([c for c in s if not 32 <= ord(c) < 127]) <= 1
    pre: 0 <= pre_n <= 1
    post: _
    """
    return fin(_roundtrip(ItemA(pick(["", "ab"], pre_n) + s)))


def str_in_list(s: str, t: str, shape: int) -> bool:
    """
    pre: len(s) <= 2 and len(t) <= 1
    pre: all(32 <= ord(c) < 127 for c in s) and all(32 <= ord(c) < 127 for c in t)
    pre: 0 <= shape <= 2
    post: _
    """
    if shape == 0:
        it = ItemL([ItemA(s), ItemA(t)])
    elif shape == 1:
        it = ItemL([ItemL([ItemA(s)]), ItemL([]), ItemA(t)])
    else:
        it = ItemL([ItemL([ItemL([ItemA(t)]), ItemA(s)])])
    return fin(_roundtrip(it))


def jis_roundtrip():
    """ItemJ over every byte value (1-byte and all 2-byte payloads): finite, exhaustive, no solver"""
    n = 0
    for b1 in range(256):
        for tail in [b""] + [bytes([x]) for x in range(256)]:
            n += 1
            if not _roundtrip(ItemJ(bytes([b1]) + tail)):
                return {"state": "refuted", "reproduced": True, "cex": {"bytes": (bytes([b1]) + tail).hex()}}
    return {"state": "confirmed", "paths": n, "extra": "exhaustive finite enumeration of 1- and 2-byte J payloads"}


def numeric_roundtrip():
    """numeric / binary / boolean items on boundary representatives per width (decimal formatting of a symbolic int is
    concretised by the engine, so this part is a bounded enumeration, not an all-values claim)"""
    n = 0
    for cls in (ItemU1, ItemU2, ItemU4, ItemU8, ItemI1, ItemI2, ItemI4, ItemI8):
        lo, hi = cls._minimum_value, cls._maximum_value
        reps = sorted(set([lo, lo + 1, -1, 0, 1, 9, 10, 99, 100, hi - 1, hi, hi // 2, lo // 2] +
                          [10 ** k for k in range(1, 20)] + [-(10 ** k) for k in range(1, 19)]))
        reps = [v for v in reps if lo <= v <= hi]
        for v in reps:
            for it in (cls(v), cls([v, lo, hi]), cls([])):
                n += 1
                if not _roundtrip(it):
                    return {"state": "refuted", "reproduced": True, "cex": {"class": cls.__name__, "value": v}}
    for v in range(256):
        for it in (ItemB(bytes([v])), ItemB(bytes([v, 255 - v, v])), ItemB(b"")):
            n += 1
            if not _roundtrip(it):
                return {"state": "refuted", "reproduced": True, "cex": {"class": "ItemB", "value": v}}
    for bl in ([], [True], [False], [True, False, True]):
        n += 1
        if not _roundtrip(ItemBOOLEAN(bl)):
            return {"state": "refuted", "reproduced": True, "cex": {"class": "ItemBOOLEAN", "value": bl}}
    for cls, vals in ((ItemF4, [0.0, 1.5, -2.25, 1e10, 3.4028234663852886e38]), (ItemF8, [0.0, 0.1, -1e300, 1.7976931348623157e308])):
        for v in vals:
            n += 1
            if not _roundtrip(cls(v)) or not _roundtrip(cls([v, v])):
                return {"state": "refuted", "reproduced": True, "cex": {"class": cls.__name__, "value": v}}
    mixed = ItemL([ItemU2(7), ItemL([ItemI1([-1, 2]), ItemB(b"\x00\xff"), ItemBOOLEAN(True)]), ItemA('q"\x00'), ItemL([])])
    if not _roundtrip(mixed):
        return {"state": "refuted", "reproduced": True, "cex": {"class": "mixed"}}
    return {"state": "confirmed", "paths": n + 1, "extra": "bounded enumeration of representatives"}


# ---------------------------------------------------------------- termination / rejection on arbitrary short texts
_ALPHA = "<>[]\"'. \nLU1Ax0"


def _first_item_closed(text):
    """reference bracket scanner: True iff the item opened by the first '<' is closed by a matching '>' (brackets inside
    quoted literals do not count, a literal is delimited by the quote character that opened it)"""
    depth = 0
    quote = ""
    opened = False
    for ch in text:
        if quote:
            if ch == quote:
                quote = ""
            continue
        if ch == '"' or ch == "'":
            quote = ch
        elif ch == "<":
            depth += 1
            opened = True
        elif ch == ">":
            if not opened:
                return False
            depth -= 1
            if depth == 0:
                return True
    return False


def _type_names_known(text):
    """every token that directly follows a '<' outside literals names a known SML type"""
    known = ("L", "A", "J", "B", "BOOLEAN", "U1", "U2", "U4", "U8", "I1", "I2", "I4", "I8", "F4", "F8")
    quote = ""
    i = 0
    n = len(text)
    while i < n:
        ch = text[i]
        if quote:
            if ch == quote:
                quote = ""
            i += 1
            continue
        if ch == '"' or ch == "'":
            quote = ch
            i += 1
            continue
        if ch == "<":
            j = i + 1
            while j < n and text[j] in " \t\n\r":
                j += 1
            k = j
            while k < n and text[k] not in " \t\n\r<>[]\"'":
                k += 1
            if text[j:k].upper() not in known:
                return False
        i += 1
    return True


def short_text(idx: List[int]) -> bool:
    """
    pre: 1 <= len(idx) <= 5
    pre: all(0 <= i < 15 for i in idx)
    post: _
    """
    text = "".join(pick(_ALPHA, i) for i in idx)
    try:
        it = Item.from_sml(text)
    except Exception:
        return fin(True)                    # rejected: always fine
    if not isinstance(it, Item):
        return False
    # an item was returned: its text must have closed the first item and named only known types on the way
    return fin(_first_item_closed(text) and _type_names_known(text[:text.index(">") + 1] if ">" in text else text))


def valid_prefix_rejected(s: str, cut: int, shape: int) -> bool:
    """
    pre: len(s) <= 2 and all(32 <= ord(c) < 127 for c in s)
    pre: 0 <= shape <= 2
    pre: 0 <= cut <= 40
    post: _
    """
    # mutations of valid SML: every proper prefix of the text of a valid item lacks the closing bracket of the first item
    if shape == 0:
        it = ItemL([ItemA(s), ItemU1(5)])
    elif shape == 1:
        it = ItemL([ItemL([ItemB(b"\x01")]), ItemA(s)])
    else:
        it = ItemA("k" + s)
    text = it.to_sml()
    if cut >= len(text):
        return True
    try:
        Item.from_sml(text[:cut])
    except Exception:
        return fin(True)
    return False


OBLIGATIONS = [
    dict(name="str_roundtrip", fn="str_roundtrip", timeout=900,
         parts=["len(s) <= 1", "len(s) == 2 and pre_n == 0", "len(s) == 2 and pre_n == 1",
                "len(s) == 3 and pre_n == 0 and all(32 <= ord(c) < 127 for c in s)"],
         functions=["ItemStr.to_sml", "Item.from_sml/_read_item", "ItemStr._read_sml_token", "SMLParser.parse_all (tokenizer)"],
         bounds="ItemA with a symbolic tail of 0..3 characters: printable ASCII characters fully symbolic (quotes, brackets, space), at "
                "most one character outside 0x20..0x7e at any position in tails of length <= 2 - those are written as character codes and the engine "
                "enumerates their value (all 162 of them), so two such characters per string (26k paths) are out of reach",
         outside="tails longer than 3; more than one non-printable character per string (covered for J by jis_roundtrip's 2-byte enumeration)"),
    dict(name="str_in_list", fn="str_in_list", timeout=600, parts=["shape == %d" % i for i in range(3)],
         functions=["ItemL.to_sml", "Item._read_items", "ItemL._read_sml_token"],
         bounds="3 nested list shapes (depth <= 3, with empty lists) holding strings of 0..2 and 0..1 symbolic printable characters"),
    dict(name="jis_roundtrip", fn="jis_roundtrip", kind="native", timeout=300, functions=["ItemJ.to_sml/from_sml"],
         bounds="finite: all 1-byte and 2-byte J payloads (65 792 items), exhaustive enumeration"),
    dict(name="numeric_roundtrip", fn="numeric_roundtrip", kind="native", timeout=300,
         functions=["ItemNumber/ItemB/ItemBOOLEAN to_sml + _read_sml_token"],
         bounds="bounded enumeration: boundary / power-of-ten representatives per width, every byte value for B",
         outside="all-values claim for numbers (decimal text of a symbolic int is concretised by the engine); float text beyond samples"),
    dict(name="short_text", fn="short_text", timeout=900,
         parts={"quick": ["len(idx) <= 3"] + ["len(idx) == 4 and idx[0] == %d" % i for i in range(15)],
                "thorough": ["len(idx) <= 3"] + ["len(idx) == 4 and idx[0] == %d" % i for i in range(15)]
                + ["len(idx) == 5 and idx[0] == 0 and idx[1] == %d" % i for i in range(15)]},
         functions=["SMLParser.parse_all", "Item.from_sml/_read_item/_read_items/_read_length", "all _read_sml_token"],
         bounds="every text of 1..4 characters (thorough: 5 starting with '<') over the 15-symbol token alphabet < > [ ] \" ' . space "
                "newline L U 1 A x 0: terminates with an item or an exception; an item is only returned when the reference bracket "
                "scanner sees the first item closed and only known type names",
         outside="longer texts"),
    dict(name="valid_prefix_rejected", fn="valid_prefix_rejected", timeout=600, parts=["shape == %d" % i for i in range(3)],
         functions=["Item.from_sml on truncated valid SML"],
         bounds="every proper prefix of the SML text of 3 item shapes with 0..2 symbolic printable characters"),
]
