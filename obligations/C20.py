"""C20: (a) mutual format compatibility - every host service call returns what the equipment holds, and a collection event triggered
while enabled reaches the host exactly once - real GemHostHandler and real GemEquipmentHandler connected by a loopback transport
that carries the ENCODED bytes of every request and reply; (b) `establish_schedules`: both real handlers on a *scheduled* link
(rigs/net.py) - startup order, connect role, delivery order of the two directions, timer expiries, a link loss and a
disable/enable cycle are chosen by a symbolic schedule; after any such prefix a fair continuation must bring both sides to
COMMUNICATING within a bounded number of events, and the data then agrees.  The HSMS/TCP layers below the GEM handlers (byte
segmentation, Select timing T6/T7) are abstracted to their notifications here: they are the subject of C04/C05/C09."""
from crosshair.simplestructs import SimpleDict

from engine.chx import fin, pick
from rigs import gem as rig
from obligations.C08 import _handler
from secsgem.gem.status_variable import StatusVariable
from secsgem.gem.equipment_constant import EquipmentConstant
from secsgem.gem.alarm import Alarm
from secsgem.gem.collection_event import CollectionEvent
from secsgem.gem.remote_command import RemoteCommand
from secsgem.gem.control_state_machine import ControlState
from secsgem.secs import variables as V

SV_A, SV_B, EC_A, AL_A, CE_A, EC_B = 31, 32, 41, 51, 61, 42


def _pair():
    hh, hp = _handler(True)
    eh, ep = _handler(False)

    def carry(dst, dst_p):
        def send(function, system):
            # the request crosses the link as bytes; the receiving handler decodes them from the wire form
            msg = rig.Msg(function.stream, function.function, function.is_reply_required, system, function.encode())
            before = len(dst_p.sent)
            dst._on_message_received({"message": msg})
            resp = [x for x in dst_p.sent[before:] if x[0] == "response"]
            if not resp:
                return None
            f = resp[0][1]
            return rig.Msg(f.stream, f.function, False, resp[0][2], f.encode())
        return send
    hp.reply = carry(eh, ep)
    ep.reply = carry(hh, hp)
    return hh, hp, eh, ep


def _populate(eh, va, vb, ec_val, en, st):
    eh._status_variables[SV_A] = StatusVariable(SV_A, "svA", "mm", V.U4, False)
    eh._status_variables[SV_A].value = va
    eh._status_variables[SV_B] = StatusVariable(SV_B, "svB", "kg", V.I2, False)
    eh._status_variables[SV_B].value = vb
    eh._equipment_constants[EC_A] = EquipmentConstant(EC_A, "ecA", -100, 1000, 0, "s", V.I4, False)
    eh._equipment_constants[EC_A].value = ec_val
    eh._equipment_constants[EC_B] = EquipmentConstant(EC_B, "ecB", 0, 9, 0, "s", V.U1, False)
    eh._equipment_constants[EC_B].value = 5
    eh._collection_events[CE_A] = CollectionEvent(CE_A, "ceA", [])
    eh._alarms[AL_A] = Alarm(AL_A, "alA", "text A", 3, CE_A, CE_A)
    eh._alarms[AL_A].enabled, eh._alarms[AL_A].set = en, st


def status_and_constants(va: int, vb: int, ec_val: int, new: int, which: int) -> bool:
    """
    pre: 0 <= va < 2**32 and -2**15 <= vb < 2**15 and -100 <= ec_val <= 1000 and -2**31 <= new < 2**31
    pre: 0 <= which <= 5
    post: _
    """
    hh, hp, eh, ep = _pair()
    _populate(eh, va, vb, ec_val, False, False)
    if which == 5:
        # two constants in one call: the second one (0..9) refused => nothing applied; both fine => both applied
        b_new = new % 16
        ack = hh.set_ecs([[EC_A, 7], [EC_B, b_new]])
        now_a, now_b = eh._equipment_constants[EC_A].value, eh._equipment_constants[EC_B].value
        if b_new <= 9:
            return fin(ack == 0 and now_a == 7 and now_b == b_new and hh.request_ecs([EC_A, EC_B]).get() == [7, b_new])
        return fin(ack != 0 and now_a == ec_val and now_b == 5 and hh.request_ecs([EC_A, EC_B]).get() == [ec_val, 5])
    if which == 0:
        return fin(hh.request_svs([SV_B, 999, SV_A]).get() == [vb, [], va] and hh.request_sv(SV_A) == va)
    if which == 1:
        got = hh.list_svs([SV_A, 999]).get()
        return fin(got == [{"SVID": SV_A, "SVNAME": "svA", "UNITS": "mm"}, {"SVID": 999, "SVNAME": "", "UNITS": ""}])
    if which == 2:
        return fin(hh.request_ecs([EC_A, 998]).get() == [ec_val, []])
    if which == 3:
        got = hh.list_ecs([EC_A]).get()
        return fin(got == [{"ECID": EC_A, "ECNAME": "ecA", "ECMIN": -100, "ECMAX": 1000, "ECDEF": 0, "UNITS": "s"}])
    ack = hh.set_ec(EC_A, new)
    now = eh._equipment_constants[EC_A].value
    if -100 <= new <= 1000:
        return fin(ack == 0 and now == new and hh.request_ecs([EC_A]).get() == [new])
    return fin(ack != 0 and now == ec_val)


def alarms_and_control(en: bool, st: bool, which: int, state: int) -> bool:
    """
    pre: 0 <= which <= 5 and 0 <= state <= 2
    post: _
    """
    hh, hp, eh, ep = _pair()
    _populate(eh, 1, 2, 3, en, st)
    if which == 0:
        return fin(hh.list_alarms([AL_A]) == [{"ALCD": 3 + (128 if st else 0), "ALID": AL_A, "ALTX": "text A"}])
    if which == 1:
        return fin(hh.list_enabled_alarms() == ([{"ALCD": 3 + (128 if st else 0), "ALID": AL_A, "ALTX": "text A"}] if en else []))
    if which == 2:
        ok = hh.enable_alarm(AL_A) == 0 and eh._alarms[AL_A].enabled
        return fin(ok and hh.disable_alarm(AL_A) == 0 and not eh._alarms[AL_A].enabled)
    if which == 3:
        r = hh.are_you_there()
        return fin(r is not None and r.header.stream == 1 and r.header.function == 2)
    sm = eh._control_state
    cur = pick([sm.host_offline, sm.online_remote, sm.equipment_offline], state)
    for s in (sm.init, sm.control, sm.offline, sm.equipment_offline, sm.attempt_online, sm.host_offline, sm.online,
              sm.online_local, sm.online_remote):
        s._active = False
    sm._current_state = cur
    cur._active = True
    if which == 4:
        ack = hh.go_online()
        want = {0: 0, 1: 2, 2: 1}[state]
        return fin(ack == want and (state != 0 or sm.current == ControlState.ONLINE_REMOTE))
    ack = hh.go_offline()
    return fin(ack == 0 and (state != 1 or sm.current == ControlState.HOST_OFFLINE))


def event_subscription(va: int, vb: int, twice: bool, rsel: int) -> bool:
    """
    pre: 0 <= va < 2**32 and -2**15 <= vb < 2**15
    pre: 0 <= rsel <= 3
    post: _
    """
    rptid = pick([None, 7, 300, 70000], rsel)        # auto-numbered, U1, U2, U4 sized ids (the host keeps them in a dict)
    hh, hp, eh, ep = _pair()
    _populate(eh, va, vb, 0, False, False)
    got = []
    hh.events.collection_event_received += lambda d: got.append((d["ceid"].get(), d["rptid"].get(),
                                                                   [(v["dvid"], v["value"]) for v in d["values"]]))
    hh.subscribe_collection_event(CE_A, [SV_B, SV_A], rptid)
    if rptid is None:
        rptid = 1000
    if not (CE_A in eh._registered_collection_events and eh._registered_collection_events[CE_A].enabled):
        return False
    eh.trigger_collection_events([CE_A])
    if twice:
        eh._status_variables[SV_A].value = 7
        eh.trigger_collection_events([CE_A])
    want = [(CE_A, rptid, [(SV_B, vb), (SV_A, va)])]
    if twice:
        want.append((CE_A, rptid, [(SV_B, vb), (SV_A, 7)]))
    if got != want:
        return False
    # unsubscribing stops the reports
    hh.clear_collection_events()
    eh.trigger_collection_events([CE_A])
    if got != want:
        return False
    # subscribing again after the clear works and reports exactly once per trigger with the new variable list
    hh.subscribe_collection_event(CE_A, [SV_A], 4000)
    eh.trigger_collection_events([CE_A])
    return fin(got == want + [(CE_A, 4000, [(SV_A, eh._status_variables[SV_A].value)])])


def remote_command(p1: int) -> bool:
    """
    pre: 0 <= p1 < 256
    post: _
    """
    hh, hp, eh, ep = _pair()
    _populate(eh, 1, 2, 3, False, False)
    seen = []
    eh._remote_commands["GO"] = RemoteCommand("GO", "go", ["SPEED"], CE_A)
    eh._callback_handler.rcmd_GO = lambda *a, **k: seen.append((a, k))
    r = hh.send_remote_command("GO", [["SPEED", p1]])
    r2 = hh.send_remote_command("NOPE", [])
    return fin(r.HCACK.get() in (0, 4) and len(seen) == 1 and r2.HCACK.get() not in (0, 4))     # 4 = accepted, finished later


def establish_schedules(host_active: bool, c0: int, c1: int, c2: int, c3: int, c4: int, c5: int, c6: int, depth: int,
                        refuse_h: int, refuse_e: int, start_h: int, start_e: int, dsel: int, fast: bool) -> bool:
    """
    pre: 0 <= c0 < 7 and 0 <= c1 < 7 and 0 <= c2 < 7 and 0 <= c3 < 7 and 0 <= c4 < 7 and 0 <= c5 < 7 and 0 <= c6 < 7
    pre: 0 <= depth <= 7
    pre: 0 <= refuse_h <= 1 and 0 <= refuse_e <= 1
    pre: 0 <= start_h < 2**31 and 0 <= start_e < 2**31 and 0 <= dsel <= 1
    post: _
    """
    from rigs import net as N
    from secsgem.gem.communication_state_machine import CommunicationState
    # establish-communications delay below the reply timeout (T3 = 45 s) on one side and above it on the other
    delay_h, delay_e = (10, 100) if dsel == 0 else (100, 10)
    net = N.Net(host_active, delay_h, delay_e, refuse_h, refuse_e, start_h, start_e, fast)
    budget = [2, 1, 1]                                  # timer expiries ahead of a pending delivery, link losses, disables
    k = 0
    for c in (c0, c1, c2, c3, c4, c5, c6):
        if k >= depth:
            if c != 0:
                return True                             # canonical form: unused schedule entries are 0
            continue
        k += 1
        opts = net.options(budget)
        if c >= len(opts):
            return True                                 # not a schedule (index beyond the enabled events)
        net.do(pick(opts, c), budget)
    used = net.settle(40)
    if used is None:
        return False                                    # stuck or not converging within 40 further events
    for side in (N.HOST, N.EQ):
        if not net.communicating(side) or not net.h[side].waitfor_communicating(0):
            return False
        # while communication was not established nothing reached a user callback
        if any(st != CommunicationState.COMMUNICATING for st in net.delivered_app[side]):
            return False
    # and the two sides really talk to each other afterwards: request/reply in both directions, one event report
    hh, eh = net.h
    r = hh.are_you_there()
    if r is None or (r.header.stream, r.header.function) != (1, 2):
        return False
    r = eh.are_you_there()
    if r is None or (r.header.stream, r.header.function) != (1, 2):
        return False
    _populate(eh, 11, -3, 0, False, False)
    got = []
    hh.events.collection_event_received += lambda d: got.append((d["ceid"].get(), [(v["dvid"], v["value"]) for v in d["values"]]))
    hh.subscribe_collection_event(CE_A, [SV_B, SV_A], 7)
    eh.trigger_collection_events([CE_A])
    net.settle(10)
    return fin(got == [(CE_A, [(SV_B, -3), (SV_A, 11)])] and net.communicating(N.HOST) and net.communicating(N.EQ))


OBLIGATIONS = [
    dict(name="status_and_constants", fn="status_and_constants", timeout=600, parts=["which == %d" % i for i in range(6)],
         functions=["SecsHandler.request_svs/request_sv/list_svs/request_ecs/list_ecs/set_ec", "equipment _on_s01f03/_on_s01f11/_on_s02f13/"
                    "_on_s02f29/_on_s02f15", "encode/decode of S1F3/4/11/12, S2F13/14/15/16/29/30 in both directions"],
         bounds="two status variables and a constant with symbolic values (full U4 / I2 / I4 width), known and unknown ids; set_ec with "
                "any 32-bit value inside and outside the declared range"),
    dict(name="alarms_and_control", fn="alarms_and_control", timeout=300,
         functions=["GemHostHandler.list_alarms/list_enabled_alarms/enable_alarm/disable_alarm/go_online/go_offline/are_you_there",
                    "equipment alarm and control handlers", "S5F3-8, S1F1/2, S1F15-18 codecs"],
         bounds="alarm enabled/set flags, three control states; finite"),
    dict(name="event_subscription", fn="event_subscription", timeout=600,
         functions=["GemHostHandler.subscribe_collection_event/clear_collection_events/_on_s06f11", "equipment S2F33/35/37 handlers, "
                    "trigger_collection_events", "S6F11/S6F12 codecs"],
         bounds="symbolic variable values; report id auto-numbered or of U1/U2/U4 size; one or two triggers; every triggered enabled event reaches the host "
                "exactly once with the linked values, none after clear_collection_events"),
    dict(name="remote_command", fn="remote_command", timeout=300,
         functions=["GemHostHandler.send_remote_command", "RemoteControlCapability._on_s02f41", "S2F41/42 codecs"],
         bounds="one known command with a symbolic parameter value and one unknown command"),
    dict(name="establish_schedules", fn="establish_schedules", timeout={"quick": 1500, "thorough": 2400},
         parts={"quick": ["depth == 5 and not fast and host_active == %s and refuse_h == %d and refuse_e == %d and dsel == %d" % (b, i, i, d)
                          for b in (True, False) for i in range(2) for d in range(2)]
                + ["depth == 4 and not fast and host_active == %s and dsel == %d" % (b, d) for b in (True, False) for d in range(2)]
                + ["depth == 3 and fast and host_active == %s and dsel == %d" % (b, d) for b in (True, False) for d in range(2)],
                "thorough": ["depth == 5 and not fast and host_active == %s and refuse_h == %d and refuse_e == %d and dsel == %d"
                             % (b, i, j, d) for b in (True, False) for i in range(2) for j in range(2) for d in range(2)]
                + ["depth == 4 and fast == %s and host_active == %s and dsel == %d" % (f, b, d)
                   for f in (True, False) for b in (True, False) for d in range(2)]
                + ["depth == 3 and host_active == %s" % b for b in (True, False)]},
         functions=["GemHandler.enable/disable/_on_message_received/_on_communicating/_on_disconnected/_on_state_wait_cra/"
                    "waitfor_communicating", "CommunicationStateMachine (all transitions, both timers)",
                    "SecsHandler._handle_stream_function, built-in S1F1/S1F13 handlers of both roles", "S1F13/S1F14 codecs both ways",
                    "GemHostHandler.are_you_there/subscribe_collection_event, equipment trigger_collection_events"],
         bounds="real host and equipment handler on a scheduled link: the first `depth` events are chosen by the symbolic schedule among "
                "the enabled ones {deliver head of either direction's FIFO, expire a pending WAIT_CRA / delay timer (<= 2, also ahead of "
                "an undelivered message), enable / disable (<= 1) either side, link selected, link loss (<= 1)}, either connect role, the link coming up inside enable() or as a separate event (`fast`), "
                "the first S1F13 refused or accepted by either side, symbolic system-byte counters, delay 10 s / 100 s (below / above T3) on either side; then a fair continuation "
                "(FIFO delivery, timers in due order on a virtual clock) must reach COMMUNICATING on both sides within 40 events, no "
                "user callback ran outside COMMUNICATING, S1F1/S1F2 works in both directions and one subscribed collection event "
                "reaches the host exactly once",
         outside="schedules with more than `depth` adversarial events (quick: 3 with the link coming up inside enable(), 4, 5 with equal refusal flags; thorough: 4 with it, 5 with every refusal combination), > 2 early timer expiries, > 1 link loss / "
                 "disable; the HSMS Select exchange, T5-T8 and TCP segmentation below the GEM layer (C04/C05/C09); real threads: each "
                 "event runs to completion (the handlers' own concurrency is C06/C18's subject)"),
]
ASSUMPTIONS = ["data obligations: both handlers constructed in COMMUNICATING state; the link is a synchronous loopback carrying encoded "
               "bytes (no threads, no latency, no segmentation)",
               "establish_schedules: rigs/net.py - HSMS session abstracted to its 'communicating'/'disconnected' notifications and "
               "send failure while the link is down; passive side selected first; one FIFO per direction; timers virtual", "sender thread of trigger_collection_events runs inline"]
