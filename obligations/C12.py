"""C12: the event-report configuration stays consistent and transactional - inductive steps on the real equipment handler."""
from typing import List

from crosshair.simplestructs import SimpleDict

from engine.chx import fin, pick
from rigs import gem as rig
import secsgem.gem
import secsgem.secs
from secsgem.gem.collection_event import CollectionEvent
from secsgem.gem.collection_event_link import CollectionEventLink
from secsgem.gem.collection_event_report import CollectionEventReport
from secsgem.gem.status_variable import StatusVariable
from secsgem.gem.data_value import DataValue
from secsgem.secs import functions as F
from secsgem.secs import variables as V

SV1, SV2, DV1 = 3001, 3002, 4001        # ids of the variables reports may refer to (values symbolic)
CE1, CE2 = 50, 51                        # user collection events (next to the 5 built-in ones)


def _pre_state(r1, r2, n_rep, vsel1, vsel2, link_shape, en1, sv1, sv2, dv1):
    """symbolic pre-state satisfying invariant J: reports r1 (and r2) with variable lists chosen by vsel, links of CE1/CE2
    per link_shape, every linked report defined, link lists duplicate free and non-empty"""
    h, p = rig.make_equipment()
    h._status_variables[SV1] = StatusVariable(SV1, "sv1", "u", V.U4, False)
    h._status_variables[SV1].value = sv1
    h._status_variables[SV2] = StatusVariable(SV2, "sv2", "u", V.U4, False)
    h._status_variables[SV2].value = sv2
    h._data_values[DV1] = DataValue(DV1, "dv1", V.U4, False)
    h._data_values[DV1].value = dv1
    h._collection_events[CE1] = CollectionEvent(CE1, "ce1", [DV1])
    h._collection_events[CE2] = CollectionEvent(CE2, "ce2", [])
    vlists = [[SV1], [SV1, DV1], [DV1, SV2]]
    model_reports = []                       # list of (rptid, [vids]) in definition order
    if n_rep >= 1:
        model_reports.append((r1, list(pick(vlists, vsel1))))
    if n_rep >= 2:
        model_reports.append((r2, list(pick(vlists, vsel2))))
    for rid, vids in model_reports:
        h._registered_reports[rid] = CollectionEventReport(rid, list(vids))
    # link shapes over the defined reports
    model_links = []                         # list of (ceid, [rptids], enabled)
    if link_shape == 1 and n_rep >= 1:
        model_links.append((CE1, [r1], en1))
    elif link_shape == 2 and n_rep >= 2:
        model_links.append((CE1, [r1, r2], en1))
    elif link_shape == 3 and n_rep >= 2:
        model_links.append((CE1, [r2], en1))
        model_links.append((CE2, [r1, r2], True))
    for ceid, rids, en in model_links:
        lk = CollectionEventLink(h._collection_events[ceid], list(rids))
        lk.enabled = en
        h._registered_collection_events[ceid] = lk
    values = {SV1: sv1, SV2: sv2, DV1: dv1}
    return h, p, model_reports, model_links, values


def _state_of(h):
    reps = [(k if not hasattr(k, "get") else k.get(), list(v.vars) if not hasattr(v.vars, "get") else list(v.vars.get()))
            for k, v in h._registered_reports.items()]
    links = [(k if not hasattr(k, "get") else k.get(), [r if not hasattr(r, "get") else r.get() for r in v.reports], v.enabled)
             for k, v in h._registered_collection_events.items()]
    return reps, links


def _same_state(h, reps, links):
    greps, glinks = _state_of(h)
    if len(greps) != len(reps) or len(glinks) != len(links):
        return False
    for rid, vids in reps:
        m = [v for k, v in greps if k == rid]
        if len(m) != 1 or m[0] != vids:
            return False
    for ceid, rids, en in links:
        m = [(r, e) for k, r, e in glinks if k == ceid]
        if len(m) != 1 or m[0][0] != rids or m[0][1] != en:
            return False
    return True


def _inv_j(h):
    greps, glinks = _state_of(h)
    for ceid, rids, en in glinks:
        if len(rids) == 0:
            return False
        for i, r in enumerate(rids):
            if len([1 for k, _ in greps if k == r]) != 1:
                return False                     # linked report does not exist
            if any(r == q for q in rids[:i]):
                return False                     # duplicate inside a link
    return True


def _expected_reports(reps, links, values, ceid):
    out = []
    for c, rids, en in links:
        if c == ceid:
            for r in rids:
                vids = [v for k, v in reps if k == r][0]
                out.append({"RPTID": r, "V": [values[v] for v in vids]})
    return out


def _event_report_ok(h, p, reps, links, values, ceid):
    """S6F15 for ceid and a trigger: well-formed, exactly the linked reports in link order with current values"""
    try:
        rsp = h._on_s06f15(h, rig.msg(F.SecsS06F15(ceid)))
    except Exception:
        return False                                  # would become an S6F0 abort
    got = rsp.get()
    linked = [l for l in links if l[0] == ceid]
    want = _expected_reports(reps, links, values, ceid)
    if got["CEID"] != ceid:
        return False
    if linked and linked[0][2]:
        if got["RPT"] != want:
            return False
    else:
        if got["RPT"] != [] and got["RPT"] != want:  # disabled / unlinked: empty (or, defensibly, the linked reports)
            return False
    before = len(p.sent)
    try:
        h.trigger_collection_events([ceid])
    except Exception:
        return False
    new = p.sent[before:]
    if linked and linked[0][2]:
        return len(new) == 1 and new[0][1].stream == 6 and new[0][1].function == 11 and new[0][1].get()["CEID"] == ceid \
            and new[0][1].get()["RPT"] == want
    return len(new) == 0


KNOWN_CE = (1, 2, 3, 20, 21, CE1, CE2)
KNOWN_VID = (SV1, SV2, DV1, 1001, 1002, 1003)       # user variables + built-in CLOCK / CONTROL_STATE / EVENTS_ENABLED


def _copy_links(links):
    return [(c, list(r), e) for c, r, e in links]


def _verdict(h, ack, hard, soft, reps, links, new_reps, new_links):
    """hard error -> must be refused and nothing changed; request inside the soft class (same id twice inside one request,
    where E5 can be read either way) -> refused-and-unchanged or accepted with the sequential duplicate-free effect;
    otherwise accepted with exactly the model's effect. Invariant J always."""
    if not _inv_j(h):
        return False
    if hard:
        return ack != 0 and _same_state(h, reps, links)
    if ack != 0:
        return soft and _same_state(h, reps, links)
    return _same_state(h, new_reps, new_links)


# ---------------------------------------------------------------- S2F35 link step
def s2f35_step(r1: int, r2: int, n_rep: int, vsel1: int, vsel2: int, link_shape: int, en1: bool, sv1: int, sv2: int, dv1: int,
               c1: int, a1: int, a2: int, n_a: int, two: bool, b1: int) -> bool:
    """
    pre: 0 <= r1 < 65536 and 0 <= r2 < 65536 and r1 != r2
    pre: 0 <= n_rep <= 2 and 0 <= vsel1 <= 2 and 0 <= vsel2 <= 2 and 0 <= link_shape <= 3
    pre: 0 <= sv1 < 2**32 and 0 <= sv2 < 2**32 and 0 <= dv1 < 2**32
    pre: 49 <= c1 <= 52 and 0 <= a1 < 65536 and 0 <= a2 < 65536 and 0 <= b1 < 65536 and 0 <= n_a <= 2
    post: _
    """
    h, p, reps, links, values = _pre_state(r1, r2, n_rep, vsel1, vsel2, link_shape, en1, sv1, sv2, dv1)
    entries = [{"CEID": c1, "RPTID": [a1, a2][:n_a]}]
    if two:
        entries.append({"CEID": CE2, "RPTID": [b1]})
    try:
        rsp = h._on_s02f35(h, rig.msg(F.SecsS02F35({"DATAID": 1, "DATA": entries})))
    except Exception:
        return False
    ack = rsp.get()
    # reference model (E5 S2F35/S2F36)
    defined = lambda r: any(k == r for k, _ in reps)
    work = _copy_links(links)
    hard, soft = 0, False
    seen = []
    for e in entries:
        c = e["CEID"]
        if not any(c == k for k in KNOWN_CE):
            hard = 4
        again = any(c == x for x in seen)
        if again:
            soft = True
        seen.append(c)
        cur = [l for l in work if l[0] == c]
        for i, r in enumerate(e["RPTID"]):
            if not defined(r):
                hard = hard or 5
            if any(r == q for q in e["RPTID"][:i]):
                soft = True
            elif cur and any(r == q for q in cur[0][1]):
                if again:
                    soft = True
                else:
                    hard = hard or 3
        if not e["RPTID"]:
            work = [l for l in work if l[0] != c]
        else:
            if not cur:
                work.append((c, [], False))
                cur = [work[-1]]
            for r in e["RPTID"]:
                if not any(r == q for q in cur[0][1]):
                    cur[0][1].append(r)
    if not _verdict(h, ack, hard, soft, reps, links, reps, work):
        return False
    if ack != 0:
        return fin(True)
    return fin(_event_report_ok(h, p, reps, work, values, c1))


# ---------------------------------------------------------------- S2F33 define / delete step
def s2f33_step(r1: int, r2: int, n_rep: int, vsel1: int, vsel2: int, link_shape: int, en1: bool, sv1: int, sv2: int, dv1: int,
               a1: int, v1: int, nv1: int, two: bool, a2: int, nv2: int, delete_all: bool) -> bool:
    """
    pre: 0 <= r1 < 65536 and 0 <= r2 < 65536 and r1 != r2
    pre: 0 <= n_rep <= 2 and 0 <= vsel1 <= 2 and 0 <= vsel2 <= 2 and 0 <= link_shape <= 3
    pre: 0 <= sv1 < 2**32 and 0 <= sv2 < 2**32 and 0 <= dv1 < 2**32
    pre: 0 <= a1 < 65536 and 0 <= a2 < 65536 and 2999 <= v1 <= 3003 and 0 <= nv1 <= 2 and 0 <= nv2 <= 1
    post: _
    """
    h, p, reps, links, values = _pre_state(r1, r2, n_rep, vsel1, vsel2, link_shape, en1, sv1, sv2, dv1)
    entries = []
    if not delete_all:
        entries.append({"RPTID": a1, "VID": [v1, DV1][:nv1]})
        if two:
            entries.append({"RPTID": a2, "VID": [SV2][:nv2]})
    try:
        rsp = h._on_s02f33(h, rig.msg(F.SecsS02F33({"DATAID": 1, "DATA": entries})))
    except Exception:
        return False
    ack = rsp.get()
    new_reps = [(k, list(v)) for k, v in reps]
    new_links = _copy_links(links)
    hard, soft = 0, False
    seen = []
    if not entries:
        new_reps, new_links = [], []              # delete all reports and with them all links
    for e in entries:
        rid = e["RPTID"]
        again = any(rid == x for x in seen)
        if again:
            soft = True
        seen.append(rid)
        if e["VID"]:
            if any(k == rid for k, _ in reps) and not again:
                hard = hard or 3                   # RPTID already defined
            for v in e["VID"]:
                if not any(v == k for k in KNOWN_VID):
                    hard = hard or 4
            new_reps = [(k, v) for k, v in new_reps if not k == rid] + [(rid, list(e["VID"]))]
        else:
            new_reps = [(k, v) for k, v in new_reps if not k == rid]
            new_links = [(c, [q for q in r if not q == rid], en) for c, r, en in new_links]
            new_links = [l for l in new_links if l[1]]
    if not _verdict(h, ack, hard, soft, reps, links, new_reps, new_links):
        return False
    if ack != 0:
        return fin(True)
    return fin(_event_report_ok(h, p, new_reps, new_links, values, CE1) and _event_report_ok(h, p, new_reps, new_links, values, CE2))


# ---------------------------------------------------------------- S2F37 enable / disable, S6F15, trigger
def s2f37_step(r1: int, r2: int, n_rep: int, vsel1: int, vsel2: int, link_shape: int, en1: bool, sv1: int, sv2: int, dv1: int,
               ceed: bool, c1: int, n_c: int, q: int) -> bool:
    """
    pre: 0 <= r1 < 65536 and 0 <= r2 < 65536 and r1 != r2
    pre: 0 <= n_rep <= 2 and 0 <= vsel1 <= 2 and 0 <= vsel2 <= 2 and 0 <= link_shape <= 3
    pre: 0 <= sv1 < 2**32 and 0 <= sv2 < 2**32 and 0 <= dv1 < 2**32
    pre: 49 <= c1 <= 52 and 0 <= n_c <= 2 and 49 <= q <= 52
    post: _
    """
    h, p, reps, links, values = _pre_state(r1, r2, n_rep, vsel1, vsel2, link_shape, en1, sv1, sv2, dv1)
    ceids = [c1, CE2][:n_c]
    try:
        rsp = h._on_s02f37(h, rig.msg(F.SecsS02F37({"CEED": ceed, "CEID": ceids})))
    except Exception:
        return False
    ack = rsp.get()
    linked = lambda c: any(c == l[0] for l in links)
    all_ok = all(linked(c) for c in ceids)
    new_links = [(c, r, (ceed if (not ceids or any(c == x for x in ceids)) else en)) for c, r, en in links]
    if all_ok:
        if ack != 0 or not _same_state(h, reps, new_links):
            return False
        cur_links = new_links
    else:
        # refused (some CEID not enabled-able): the acknowledge is non-zero; the property does not fix the effect on the
        # other CEIDs of the request, so only the report/link structure must be untouched
        if ack == 0:
            return False
        greps, glinks = _state_of(h)
        cur_links = [(c, r, [g for g in glinks if g[0] == c][0][2]) for c, r, en in links]
        if not _same_state(h, reps, cur_links):
            return False
    return fin(_inv_j(h) and _event_report_ok(h, p, reps, cur_links, values, q))


_SMALL = " and r1 < 256 and r2 < 256 and a1 < 256 and a2 < 256"
_SHAPES = [(a, b) for a in (0, 1, 2) for b in (0, 1, 2, 3) if b == 0 or (b == 1 and a >= 1) or (b >= 2 and a == 2)]


def _parts35(quick):
    if quick:
        sel = [(2, 3, 2, True), (2, 3, 2, False), (2, 2, 2, False), (2, 2, 1, True), (1, 1, 1, False), (1, 0, 2, False),
               (2, 3, 0, True), (2, 0, 1, False)]
        return ["n_rep == %d and link_shape == %d and n_a == %d and two == %s and vsel1 == 1 and vsel2 == 0 and b1 < 256%s"
                % (a, b, c, d, _SMALL) for a, b, c, d in sel]
    return ["n_rep == %d and link_shape == %d and n_a == %d and two == %s and vsel1 == %d and b1 < 256%s" % (a, b, c, d, v, _SMALL)
            for a, b in _SHAPES for c in (0, 1, 2) for d in (True, False) for v in (0, 1, 2)]


def _parts33(quick):
    if quick:
        sel = [(2, 3, 0, True), (2, 3, 0, False), (2, 2, 0, True), (2, 3, 1, False), (1, 1, 2, True), (1, 0, 1, False),
               (0, 0, 2, False), (2, 2, 2, False)]
        return ["n_rep == %d and link_shape == %d and nv1 == %d and two == %s and vsel1 == 1 and vsel2 == 0%s"
                % (a, b, c, d, _SMALL) for a, b, c, d in sel]
    return ["n_rep == %d and link_shape == %d and nv1 == %d and two == %s and vsel1 == %d%s" % (a, b, c, d, v, _SMALL)
            for a, b in _SHAPES for c in (0, 1, 2) for d in (True, False) for v in (0, 1, 2)]


OBLIGATIONS = [
    dict(name="s2f35_step", fn="s2f35_step", timeout=900,
         parts={"quick": _parts35(True), "thorough": _parts35(False)},
         functions=["CollectionEventCapability._on_s02f35", "_on_s06f15", "trigger_collection_events", "_build_collection_event"],
         bounds="pre-state (invariant J): <= 2 reports with 8-bit symbolic ids (all of one SECS type; 16-bit ids fork per item type and did not finish) and 3 variable-list shapes, 4 link shapes over CE1/CE2, "
                "enabled flags, symbolic 32-bit variable values; request: 1..2 entries, first with symbolic CEID 49..52 and 0..2 symbolic "
                "RPTIDs, second CE2 + one symbolic RPTID; quick: 8 slices of the (reports, links, RPTID count, entries, variable list) product, thorough: all 180",
         outside="> 2 entries per request, > 2 links, text ids"),
    dict(name="s2f33_step", fn="s2f33_step", timeout=900,
         parts={"quick": _parts33(True), "thorough": _parts33(False)},
         functions=["CollectionEventCapability._on_s02f33 (define / delete one / delete all)", "_on_s06f15", "trigger_collection_events"],
         bounds="same pre-states; request: delete-all, or 1..2 entries (symbolic RPTIDs; VID lists of 0..2 with a symbolic VID "
                "2999..3003 around the known ids)",
         outside="> 2 entries, > 2 VIDs per entry"),
    dict(name="s2f37_step", fn="s2f37_step", timeout=900,
         parts=["link_shape == %d and r1 < 256 and r2 < 256" % i for i in range(4)],
         functions=["CollectionEventCapability._on_s02f37/_set_ce_state", "_on_s06f15", "trigger_collection_events"],
         bounds="same pre-states; CEED symbolic, 0..2 CEIDs (symbolic 49..52 + CE2), then S6F15 + trigger of a symbolic CEID 49..52"),
]
ASSUMPTIONS = ["requests reach the handler as structured function objects (StreamsFunctions.decode returns message.data unchanged); "
               "the wire codec of the same functions is C03's subject", "sender thread of trigger_collection_events runs inline",
               "duplicate ids inside one request: refusal without effect or the sequential duplicate-free effect are both accepted"]
