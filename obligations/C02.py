"""C02: every valid SEMI E5 item encoding is decoded to the value it denotes (library decoder vs independent decoder)."""
from engine.chx import fin, pick
from oracles import refe5
import secsgem.secs.variables as V
from secsgem.secs.item import Item
from secsgem.secs.variables.dynamic import ANYVALUE


def _has(ref, codes):
    code, payload = ref
    if code in codes:
        return True
    if code == refe5.L:
        return any(_has(x, codes) for x in payload)
    return False


def _to_ref(var):
    """reference-form value of a decoded secsgem variable"""
    if isinstance(var, V.Dynamic):
        var = var.value
    if isinstance(var, V.Array):
        return (refe5.L, [_to_ref(x) for x in var.data])
    code = var.format_code
    if code == refe5.B:
        return (code, list(var.value))
    if code in (refe5.A, refe5.J):
        return (code, [ord(c) for c in var.value])
    if code == refe5.BOOLEAN:
        return (code, [1 if x else 0 for x in var.value])
    return (code, list(var.value))


def _norm(ref):
    code, payload = ref
    if code == refe5.L:
        return (code, [_norm(x) for x in payload])
    if code == refe5.BOOLEAN:
        return (code, [1 if x else 0 for x in payload])
    return (code, list(payload))


def _pinned(b, pins):
    """the same byte string with the format bytes replaced by the concrete values they are known to have on this path
    (Dynamic.decode indexes a dict of classes with the format code; a symbolic index there is unsupported by the engine)"""
    out = []
    for i in range(len(b)):
        c = None
        for pos, val in pins:
            if pos == i:
                c = val
        out.append(b[i:i + 1] if c is None else bytes([c]))
    return b"".join(out)


def anyvalue_decode(b: bytes, off: int) -> bool:
    """
    pre: 2 <= len(b) <= 7
    pre: 0 <= off <= 1
    post: _
    """
    pins = []
    try:
        ref, pos = refe5.decode(list(b), pins=pins)
    except refe5.Invalid:
        return True
    if pos != len(b) or _has(ref, (refe5.F4, refe5.F8, refe5.J)):
        return True                 # floats: see float_lemmas (the struct model concretises float payloads); J: no Dynamic allows it
    data = pick([b"", b"\x99"], off) + _pinned(b, pins)
    obj = ANYVALUE()
    try:
        p = obj.decode(data, off)
    except Exception:
        return False                # a valid encoding was rejected
    if p != len(data) or _to_ref(obj) != _norm(ref):
        return False
    return fin(list(obj.encode()) == refe5.canonical(_norm(ref)))


def item_decode(b: bytes) -> bool:
    """
    pre: 2 <= len(b) <= 7
    post: _
    """
    try:
        ref, pos = refe5.decode(list(b))
    except refe5.Invalid:
        return True
    if pos != len(b) or _has(ref, (refe5.F4, refe5.F8, refe5.J)):
        return True
    try:
        it = Item.decode(b)
    except Exception:
        return False
    return fin(list(it.encode()) == refe5.canonical(_norm(ref)))


_TYPED = [V.Binary, V.Boolean, V.String, V.I8, V.I1, V.I2, V.I4, V.U8, V.U1, V.U2, V.U4]


def typed_nonminimal(payload: bytes, k: int, nlb: int, n: int) -> bool:
    """
    pre: 0 <= k < 11
    pre: 1 <= nlb <= 3
    pre: 0 <= n <= 2
    pre: len(payload) == 16
    post: _
    """
    # encodings that use more length bytes than necessary, for every typed receiving class
    cls = pick(_TYPED, k)
    code = cls.format_code
    size = refe5.ELEM_SIZE[code]
    body = payload[:n * size]
    data = bytes([code * 4 + nlb] + [0] * (nlb - 1) + [n * size]) + body
    obj = cls()
    try:
        p = obj.decode(data)
    except Exception:
        return False
    ref, _ = refe5.decode(list(data))
    return fin(p == len(data) and _to_ref(obj) == _norm(ref) and list(obj.encode()) == refe5.canonical(_norm(ref)))


def restricted_dynamic(b: bytes, sel: int) -> bool:
    """
    pre: 2 <= len(b) <= 4
    pre: 0 <= sel <= 3
    post: _
    """
    # format codes the receiving definition does not allow must be refused, allowed ones decoded; an empty type list is
    # documented as "all types are supported"
    allowed = pick([[V.U1, V.U2], [V.String, V.Binary], [V.Boolean, V.I4, V.U4], []], sel)
    pins = []
    try:
        ref, pos = refe5.decode(list(b), pins=pins)
    except refe5.Invalid:
        return True
    if pos != len(b) or (ref[0] == refe5.L and sel != 3) or _has(ref, (refe5.F4, refe5.F8, refe5.J)):
        return True
    ok = sel == 3 or any(ref[0] == c.format_code for c in allowed)
    obj = V.Dynamic(list(allowed))
    b = _pinned(b, pins)
    try:
        p = obj.decode(b)
    except ValueError:
        return fin(not ok)
    if not ok:
        return False
    return fin(p == len(b) and _to_ref(obj) == _norm(ref))


_CNUM = [V.U1, V.U2, V.U4, V.U8, V.I1, V.I2, V.I4, V.I8]


def counted_numeric(payload: bytes, k: int, c: int, n: int, dyn: bool) -> bool:
    """
    pre: 0 <= k < 8 and 1 <= c <= 3 and 0 <= n <= 4
    pre: len(payload) == 32
    post: _
    """
    # an item definition that limits the NUMBER of values (count) accepts every format/width with up to that many values -
    # the limit is on values, not on payload bytes - and refuses more; typed variable and Dynamic restricted to that type
    cls = pick(_CNUM, k)
    w = refe5.INT_WIDTH[cls.format_code]
    body = payload[: n * w]
    data = bytes(refe5.header(cls.format_code, n * w)) + body
    want = [refe5.int_value(cls.format_code, list(body[i * w:(i + 1) * w])) for i in range(n)]
    obj = V.Dynamic([cls], count=c) if dyn else cls(count=c)
    try:
        pos = obj.decode(data)
    except ValueError:
        return fin(n > c)
    if n > c:
        return False
    got = obj.value.value if dyn else obj.value
    return fin(pos == len(data) and got == want)


def float_lemmas():
    from obligations.C01 import float_lemmas as f
    return f()


OBLIGATIONS = [
    dict(name="anyvalue_decode", fn="anyvalue_decode", timeout=900,
         parts={"quick": ["len(b) == %d" % n for n in (2, 3, 4, 5)] + ["len(b) == 6 and b[0] == 1"],
                "thorough": ["len(b) == %d" % n for n in (2, 3, 4, 5)] + ["len(b) == 6 and b[0] // 16 == %d" % i for i in range(16)]
                + ["len(b) == 7 and b[0] == 1 and b[1] == %d and b[2] // 64 == %d" % (i, j) for i in (1, 2, 3) for j in range(4)]},
         functions=["Dynamic.decode (ANYVALUE)", "Array.decode", "typed decoders", "Base.decode_item_header", "encode of the decoded object"],
         bounds="every byte string of length 2..5 (quick: plus 6-byte lists; thorough: all 6-byte strings and 7-byte lists) accepted completely by the independent decoder "
                "oracles/refe5.decode (1..3 length bytes of any magnitude, all format codes, nesting), decoded at offset 0 and 1",
         outside="longer encodings; float payloads inside the byte string (float_lemmas); JIS-8 (not allowed by any Dynamic)"),
    dict(name="item_decode", fn="item_decode", timeout=900,
         parts=["len(b) == %d" % n for n in (2, 3, 4, 5)],
         functions=["Item.decode and subclasses", "encode of the decoded item"],
         bounds="every valid byte string of length 2..5, re-encoding == canonical form"),
    dict(name="typed_nonminimal", fn="typed_nonminimal", timeout=600, parts=["nlb == 1", "nlb == 2", "nlb == 3"],
         functions=["typed decode of Binary/Boolean/String/I*/U*"], bounds="1..3 length bytes for 0..2 elements of fresh payload"),
    dict(name="counted_numeric", fn="counted_numeric", timeout=600, parts=["k < 4", "k >= 4"],
         functions=["BaseNumber.decode/set with a count limit", "Dynamic.decode with count"],
         bounds="U1..U8, I1..I8 with count 1..3, 0..4 values of fresh payload bytes, typed variable and restricted Dynamic: accepted with the "
                "reference value iff the number of values is within the count"),
    dict(name="restricted_dynamic", fn="restricted_dynamic", timeout=600,
         functions=["Dynamic.decode with restricted types"], bounds="3 allowed-type sets (non-list items) and the empty set = all types (incl. lists), every valid byte string of length 2..4"),
    dict(name="float_lemmas", fn="float_lemmas", kind="native", timeout=300,
         functions=["BaseNumber range guards as z3 FP (shared with C01)"], bounds="every finite binary32/binary64 wire value"),
]
