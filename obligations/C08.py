"""C08: every primary that expects a reply is answered exactly once with the same system bytes (step on the real handlers)."""
from engine.chx import fin, pick
from oracles import refe37
from rigs import gem as rig
from secsgem.secs import functions as F

_F0_STREAMS = (0, 1, 2, 5, 6, 7, 9, 10, 12, 14)


class Reply:
    """secondary returned by the probe callback: only what send_response / the recording protocol look at"""
    is_reply_required = False

    def __init__(self, stream, function):
        self.stream, self.function = stream, function

    def encode(self):
        return b""


def _handler(host):
    h, p = rig.make_host() if host else rig.make_equipment(symbolic=False)
    cm = h._communication_state
    for s in (cm.disabled, cm.not_communicating, cm.wait_cra, cm.wait_delay):
        s._active = False
    cm._current_state = cm.communicating
    cm.communicating._active = True
    cm.enabled._active = True
    return h, p


def primary_step(host: bool, stream: int, function: int, w: bool, system: int, cb: int) -> bool:
    """
    pre: 0 <= stream < 128 and 1 <= function < 256 and function % 2 == 1
    pre: 0 <= system < 2**32 and 0 <= cb <= 3
    pre: not (cb == 3 and w)
    post: _
    """
    # cb: 0 no user callback (built-in handlers only), 1 user callback returns the secondary, 2 user callback raises,
    #     3 user callback handles the message and returns nothing (only meaningful without W-bit)
    h, p = _handler(host)
    builtin = callable(getattr(h, "_on_s%02df%02d" % (stream, function), None))
    if cb == 1:
        h.register_stream_function(stream, function, lambda handler, message: Reply(stream, function + 1))
    elif cb == 2:
        def boom(handler, message):
            raise RuntimeError("callback failed")
        h.register_stream_function(stream, function, boom)
    elif cb == 3:
        h.register_stream_function(stream, function, lambda handler, message: None)
    msg = rig.Msg(stream, function, w, system, b"")          # header-only / empty body (malformed for functions that need data)
    try:
        h._on_message_received({"message": msg})
    except Exception:
        pass                                               # swallowed and logged by Protocol._dispatch_block
    replies = [(f.stream, f.function, sysb, f) for kind, f, sysb in p.sent if kind == "response"]
    has_cb = cb != 0 or builtin
    if w:
        if len(replies) != 1 or replies[0][2] != system:
            return False
        s, f = replies[0][0], replies[0][1]
        if not has_cb:
            # S9F5 carrying the offending header
            return fin((s, f) == (9, 5) and bytes(replies[0][3].get()) ==
                       bytes(refe37.header(system, 0, stream, function, True, 0, 0)))
        return fin((s, f) == (stream, function + 1) or (s, f) == (stream, 0))
    # no W-bit
    if cb == 2:
        return fin(len(replies) <= 1)                      # failed handling: an abort is tolerated, never more than one message
    if not has_cb:
        return fin(len(replies) == 0)
    if cb == 0 and replies and replies[0][1] == 0:
        return fin(len(replies) == 1)                      # built-in handler failed on the empty body: abort tolerated
    return fin(len(replies) == 0)


def sample_bodies(host: bool, k: int, w: bool, system: int) -> bool:
    """
    pre: 0 <= k < 14
    pre: 0 <= system < 2**32
    post: _
    """
    # well-formed bodies for the built-in handlers: reply is the matching secondary, once, same system bytes
    fn = pick([F.SecsS01F01(), F.SecsS01F03([1002]), F.SecsS01F11([1002]), F.SecsS01F13([]), F.SecsS01F15(), F.SecsS01F17(),
               F.SecsS02F13([]), F.SecsS02F29([]), F.SecsS02F17(), F.SecsS02F37({"CEED": True, "CEID": []}),
               F.SecsS05F05([]), F.SecsS05F07(), F.SecsS06F15(1), F.SecsS02F33({"DATAID": 1, "DATA": []})], k)
    h, p = _handler(host)
    builtin = callable(getattr(h, "_on_s%02df%02d" % (fn.stream, fn.function), None))
    try:
        h._on_message_received({"message": rig.msg(fn, system, w)})
    except Exception:
        pass
    replies = [(f.stream, f.function, sysb) for kind, f, sysb in p.sent if kind == "response"]
    if w:
        want = (fn.stream, fn.function + 1) if builtin else (9, 5)
        return fin(replies == [(want[0], want[1], system)])
    return fin(replies == [])


def _wired(host):
    """real handler on the real HsmsProtocol (SELECTED, COMMUNICATING), recording connection, inline sender"""
    import secsgem.gem
    import secsgem.hsms
    from crosshair.simplestructs import SimpleDict
    from rigs import hsms as hrig
    s = hrig._Settings(device_type=secsgem.common.DeviceType.HOST if host else secsgem.common.DeviceType.EQUIPMENT)
    s._c = hrig.FakeConn(s)
    h = secsgem.gem.GemHostHandler(s) if host else secsgem.gem.GemEquipmentHandler(s)
    p = h.protocol
    p._thread.trigger_receiver = p._process_send_queue
    p._connection
    p._incomplete_messages = SimpleDict([])
    p._response_queues = SimpleDict([])
    hrig.set_state(p, 2)
    cm = h._communication_state
    for st in (cm.disabled, cm.not_communicating, cm.wait_cra, cm.wait_delay):
        st._active = False
    cm._current_state = cm.communicating
    cm.communicating._active = True
    cm.enabled._active = True
    return h, p, s._c


def wire_step(host: bool, k: int, w: bool, system: int, session: int, start: int, timed_out_before: bool) -> bool:
    """
    pre: 0 <= k < 6
    pre: 0 <= system < 2**32 and 0 <= session < 2**16 and 0 <= start < 2**32
    post: _
    """
    # the whole reply path down to the bytes on the connection: header-only primaries (built-in handler, unknown function,
    # catalogued function without handler), optionally after one of the endpoint's own requests has timed out
    from secsgem.hsms.header import HsmsHeader, HsmsSType
    from secsgem.hsms.message import HsmsBlock
    stream, function = pick([(1, 1), (1, 13), (99, 1), (7, 19), (2, 17), (64, 255)], k)
    h, p, c = _wired(host)
    p._system_counter = start
    if timed_out_before:
        p._settings.timeouts.t3 = 0
        if h.send_and_waitfor_response(F.SecsS01F01()) is not None:
            return False
        del c.wire[:]
    builtin = callable(getattr(h, "_on_s%02df%02d" % (stream, function), None))
    p._dispatch_block(p, HsmsBlock(HsmsHeader(system, session, stream, function, w, 0, HsmsSType.DATA_MESSAGE), b""))
    frames = [bytes(x) for x in c.wire]
    if not w:
        return fin(True)                                   # (replies to primaries without W-bit: finding C08-reply-without-wbit)
    if len(frames) != 1:
        return False
    f = frames[0]
    hdr = refe37.fields(list(f[4:14]))
    if hdr["s_type"] != 0 or hdr["system"] != system or hdr["w"]:
        return False
    if builtin:
        return fin((hdr["stream"], hdr["function"]) in ((stream, function + 1), (stream, 0)))
    # S9F5 with MHEAD = the ten header bytes of the offending message
    want = bytes(refe37.header(system, session, stream, function, True, 0, 0))
    return fin((hdr["stream"], hdr["function"]) == (9, 5) and f[14:] == bytes([0x21, 10]) + want)


OBLIGATIONS = [
    dict(name="primary_step", fn="primary_step", timeout=900,
         parts={"quick": ["stream // 16 == %d and function < 32" % i for i in range(8)],
                "thorough": ["stream // 4 == %d and function %s 128" % (i, op) for i in range(32) for op in ("<", ">=")]},
         functions=["GemHandler._on_message_received (COMMUNICATING)", "SecsHandler._handle_stream_function/_handle_unknown_functions",
                    "CallbackHandler lookup", "built-in _on_sXXfYY handlers of GemEquipmentHandler / GemHostHandler with an empty body"],
         bounds="host and equipment handler; every stream 0..127 and every odd function (quick: < 32, thorough: < 256), W-bit, all 2^32 "
                "system bytes, no user callback / user callback returning the secondary / raising / returning nothing; header-only body",
         outside="user callbacks that return nothing for a W-bit primary (their own contract); bodies other than empty (sample_bodies)",
         findings=[dict(id="C08-reply-without-wbit", pred="not w and (cb == 1 or cb == 0)"),
                   dict(id="C08-no-abort-function", pred="w and cb == 2 and stream not in (0, 1, 2, 5, 6, 7, 9, 10, 12, 14)")]),
    dict(name="wire_step", fn="wire_step", timeout=600, parts=["k == %d" % i for i in range(6)],
         functions=["Protocol._dispatch_block", "HsmsProtocol._on_connection_message_received", "GemHandler._on_message_received",
                    "SecsHandler._handle_stream_function/_handle_unknown_functions", "Protocol.send_response/send_message",
                    "HsmsProtocol._process_send_queue", "send_and_waitfor_response (timed-out own request before)"],
         bounds="real handler wired to the real HsmsProtocol: 6 header-only primaries (built-in, uncatalogued, catalogued without "
                "handler), W-bit, all 2^32 system bytes, session id, any counter start, optionally after an own request timed out: "
                "exactly one data frame with the request's system bytes; S9F5 carries the offending header as MHEAD"),
    dict(name="sample_bodies", fn="sample_bodies", timeout=600,
         functions=["built-in handlers with well-formed requests"],
         bounds="14 well-formed requests x host/equipment x W-bit x all system bytes",
         findings=[dict(id="C08-reply-without-wbit", pred="not w")]),
]
ASSUMPTIONS = ["communication state constructed as COMMUNICATING; protocol replaced by the recording stub (send_response records the function)"]
