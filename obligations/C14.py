"""C14: the Item API agrees with SEMI E5 and with the variables API on every value (same pivot rule as C01)."""
from typing import List

from engine.chx import fin, pick
from oracles import refe5
import secsgem.secs.variables as V
from secsgem.secs.item import Item
from secsgem.secs.item_number import (ItemU1, ItemU2, ItemU4, ItemU8, ItemI1, ItemI2, ItemI4, ItemI8, ItemF4, ItemF8)
from secsgem.secs.item_b import ItemB
from secsgem.secs.item_boolean import ItemBOOLEAN
from secsgem.secs.item_str import ItemA, ItemJ
from secsgem.secs.item_l import ItemL
from obligations.C01 import _float_lemmas

_ALL = [ItemL, ItemB, ItemBOOLEAN, ItemA, ItemJ, ItemI8, ItemI1, ItemI2, ItemI4, ItemF8, ItemF4, ItemU8, ItemU1, ItemU2, ItemU4]
_INTS = [ItemU1, ItemU2, ItemU4, ItemU8, ItemI1, ItemI2, ItemI4, ItemI8]
_VARS = [V.U1, V.U2, V.U4, V.U8, V.I1, V.I2, V.I4, V.I8]


def hdr_encode(length: int, k: int) -> bool:
    """
    pre: 0 <= k < 15
    pre: -2 <= length <= 2**24 + 1
    post: _
    """
    cls = pick(_ALL, k)
    obj = cls.__new__(cls)
    try:
        got = obj.encode_item_header(length)
    except ValueError:
        return fin(length < 0 or length > 0xFFFFFF)
    if length < 0 or length > 0xFFFFFF:
        return False
    return fin(list(got) == refe5.header(cls._hsms_type, length))


def int_items(vals: List[int], k: int, scalar: bool) -> bool:
    """
    pre: 0 <= k < 8
    pre: 1 <= len(vals) <= 2 or (len(vals) == 0 and not scalar)
    post: _
    """
    cls = pick(_INTS, k)
    lo, hi = refe5.int_range(cls._hsms_type)
    use = vals[:1] if scalar else vals
    ok = all(lo <= v <= hi for v in use)
    try:
        it = cls(use[0]) if scalar else cls(list(use))
    except ValueError:
        return fin(not ok)
    if not ok:
        return False
    enc = it.encode()
    if list(enc) != refe5.encode_ints(cls._hsms_type, use):
        return False
    # both item APIs produce identical bytes for the same typed value
    var = pick(_VARS, k)(list(use))
    if var.encode() != enc:
        return False
    return fin(it.value == (use[0] if len(use) == 1 else use))


def int_decode(payload: bytes, k: int, n: int, generic: bool) -> bool:
    """
    pre: 0 <= k < 8
    pre: 0 <= n <= 2
    pre: len(payload) == 16
    post: _
    """
    cls = pick(_INTS, k)
    w = refe5.INT_WIDTH[cls._hsms_type]
    body = payload[: n * w]
    data = bytes(refe5.header(cls._hsms_type, n * w)) + body
    it = Item.decode(data) if generic else cls.decode(data)
    want = [refe5.int_value(cls._hsms_type, list(body[i * w:(i + 1) * w])) for i in range(n)]
    return fin(type(it) is cls and it._value == want)


def from_value_int(v: int) -> bool:
    """
    pre: -2**63 - 2 <= v <= 2**64 + 1
    post: _
    """
    try:
        it = Item.from_value(v)
    except ValueError:
        return fin(v < -2**63 or v >= 2**64)
    if v < -2**63 or v >= 2**64:
        return False
    # narrowest unsigned width for v >= 0, narrowest signed width for v < 0
    if v >= 0:
        want = ItemU1 if v < 2**8 else ItemU2 if v < 2**16 else ItemU4 if v < 2**32 else ItemU8
    else:
        want = ItemI1 if v >= -2**7 else ItemI2 if v >= -2**15 else ItemI4 if v >= -2**31 else ItemI8
    return fin(type(it) is want and it.value == v and list(it.encode()) == refe5.encode_ints(want._hsms_type, [v]))


def str_items(s: str, big: int, frombytes: bool) -> bool:
    """
    pre: len(s) <= 3
    pre: all(ord(c) < 256 for c in s)
    pre: 0 <= big <= 1
    post: _
    """
    p = "x" * pick([0, 253], big) + s
    raw = bytes([ord(c) for c in p])
    it = ItemA(raw) if frombytes else ItemA(p)
    want = refe5.header(refe5.A, len(p)) + [ord(c) for c in p]
    if list(it.encode()) != want or it.value != p:
        return False
    fv = Item.from_value(p)
    if type(fv) is not ItemA or fv.value != p:
        return False
    return fin(V.String(p).encode() == it.encode())


def str_decode(b: bytes, big: int, generic: bool) -> bool:
    """
    pre: len(b) <= 3
    pre: 0 <= big <= 1
    post: _
    """
    pl = b"x" * pick([0, 253], big) + b
    data = bytes(refe5.header(refe5.A, len(pl))) + pl
    it = Item.decode(data) if generic else ItemA.decode(data)
    return fin(type(it) is ItemA and [ord(c) for c in it._value] == list(pl))


def bin_items(b: bytes, form: int, big: int) -> bool:
    """
    pre: len(b) <= 3
    pre: 0 <= form <= 3
    pre: 0 <= big <= 1
    post: _
    """
    pl = b"\x07" * pick([0, 253], big) + b
    if form == 0:
        it = ItemB(pl)
    elif form == 1:
        it = ItemB(list(pl))                 # list of ints
    elif form == 2:
        it = ItemB([pl[:1], pl[1:]])         # list of bytes chunks
    else:
        it = Item.from_value(pl)
    want = refe5.header(refe5.B, len(pl)) + list(pl)
    if type(it) is not ItemB or list(it.encode()) != want or it.value != pl:
        return False
    return fin(V.Binary(pl).encode() == it.encode())


def bin_scalar(x: int) -> bool:
    """
    pre: -2 <= x <= 257
    post: _
    """
    try:
        it = ItemB(x)
    except ValueError:
        return fin(x < 0 or x > 255)
    if x < 0 or x > 255:
        return False
    return fin(list(it.encode()) == refe5.header(refe5.B, 1) + [x])


def bin_decode(b: bytes, big: int, generic: bool) -> bool:
    """
    pre: len(b) <= 3
    pre: 0 <= big <= 1
    post: _
    """
    pl = b"\x07" * pick([0, 253], big) + b
    data = bytes(refe5.header(refe5.B, len(pl))) + pl
    it = Item.decode(data) if generic else ItemB.decode(data)
    return fin(type(it) is ItemB and it.value == pl and it.encode() == data)


def bool_items(vals: List[bool], form: int) -> bool:
    """
    pre: 1 <= len(vals) <= 3
    pre: 0 <= form <= 2
    post: _
    """
    if form == 0:
        it = ItemBOOLEAN(list(vals))
    elif form == 1:
        it = ItemBOOLEAN([1 if v else 0 for v in vals])
    else:
        it = Item.from_value(vals[0])
        vals = vals[:1]
    want = refe5.header(refe5.BOOLEAN, len(vals)) + [1 if v else 0 for v in vals]
    if type(it) is not ItemBOOLEAN or list(it.encode()) != want:
        return False
    return fin(it.value == (vals[0] if len(vals) == 1 else vals) and V.Boolean(list(vals)).encode() == it.encode())


def bool_decode(b: bytes, generic: bool) -> bool:
    """
    pre: len(b) <= 3
    post: _
    """
    data = bytes(refe5.header(refe5.BOOLEAN, len(b))) + b
    it = Item.decode(data) if generic else ItemBOOLEAN.decode(data)
    return fin(type(it) is ItemBOOLEAN and it._value == [x != 0 for x in b])


def list_items(a: int, b: int, s: str, bs: bytes, flag: bool, shape: int) -> bool:
    """
    pre: -2**31 <= a < 2**32 and 0 <= b < 256
    pre: len(s) <= 2 and all(ord(c) < 256 for c in s)
    pre: len(bs) == 2
    pre: 0 <= shape <= 3
    post: _
    """
    def ref_int(v):
        if v >= 0:
            code = refe5.U1 if v < 2**8 else refe5.U2 if v < 2**16 else refe5.U4
        else:
            code = refe5.I1 if v >= -2**7 else refe5.I2 if v >= -2**15 else refe5.I4
        return refe5.encode_ints(code, [v])
    rs = refe5.encode_bytes_item(refe5.A, [ord(c) for c in s])
    rb = refe5.encode_bytes_item(refe5.B, list(bs))
    rf = refe5.encode_bytes_item(refe5.BOOLEAN, [1 if flag else 0])
    if shape == 0:
        val, want = [], refe5.encode_list([])
    elif shape == 1:
        val, want = [a, s], refe5.encode_list([ref_int(a), rs])
    elif shape == 2:
        val, want = [[b, flag], bs, []], refe5.encode_list([refe5.encode_list([ref_int(b), rf]), rb, refe5.encode_list([])])
    else:
        val, want = [[[a]], [s, [flag]]], refe5.encode_list([refe5.encode_list([refe5.encode_list([ref_int(a)])]),
                                                               refe5.encode_list([rs, refe5.encode_list([rf])])])
    it = Item.from_value(val)
    if type(it) is not ItemL or list(it.encode()) != want:
        return False
    if ItemL(val).encode() != it.encode():
        return False
    return fin(it.value == val)


def list_decode(p: bytes, shape: int) -> bool:
    """
    pre: len(p) == 6
    pre: 0 <= shape <= 2
    post: _
    """
    u2 = refe5.header(refe5.U2, 2) + list(p[0:2])
    i1 = refe5.header(refe5.I1, 1) + list(p[2:3])
    a2 = refe5.header(refe5.A, 2) + list(p[3:5])
    bo = refe5.header(refe5.BOOLEAN, 1) + list(p[5:6])
    v_u2 = refe5.int_value(refe5.U2, list(p[0:2]))
    v_i1 = refe5.int_value(refe5.I1, list(p[2:3]))
    v_a = "".join(chr(x) for x in p[3:5])
    v_b = p[5] != 0
    if shape == 0:
        data, want = refe5.encode_list([]), []
    elif shape == 1:
        data, want = refe5.encode_list([u2, a2]), [v_u2, v_a]
    else:
        data, want = refe5.encode_list([refe5.encode_list([i1, bo]), refe5.encode_list([]), u2]), [[v_i1, v_b], [], v_u2]
    it = Item.decode(bytes(data))
    return fin(type(it) is ItemL and it.value == want)


def float_lemmas():
    def dec(cls, data):
        it = cls.decode(bytes(data))
        return it

    def enc(cls, val):
        return cls(val).encode()

    classes = [(c, bits, {"cls._minimum_value": c._minimum_value, "cls._maximum_value": c._maximum_value},
                Item._verify_value_in_bounds.__func__, Item._verify_value_in_bounds.__func__) for c, bits in ((ItemF4, 32), (ItemF8, 64))]
    return _float_lemmas(classes, None, dec, enc, lambda cls, n: refe5.header(cls._hsms_type, n))


def from_value_float():
    """Item.from_value(float): F4 when the F4 range accepts it, else F8; the value itself is kept (double) - table + z3 guard"""
    import math
    for v, want in ((0.0, ItemF4), (1.5, ItemF4), (3.4028234663852886e38, ItemF4), (-3.4028234663852886e38, ItemF4),
                    (3.5e38, ItemF8), (-3.5e38, ItemF8), (1.7976931348623157e308, ItemF8)):
        it = Item.from_value(v)
        if type(it) is not want or it.value != v:
            return {"state": "refuted", "reproduced": True, "cex": {"value": v, "got": type(it).__name__}}
    return {"state": "confirmed", "paths": 7, "extra": "finite table (type selection threshold = the F4 guard proved in float_lemmas)"}


OBLIGATIONS = [
    dict(name="hdr_encode", fn="hdr_encode", timeout=120, functions=["Item.encode_item_header"],
         bounds="every length in [-2, 2^24+1], all 15 item classes"),
    dict(name="int_items", fn="int_items", timeout=300, parts=["k == %d" % i for i in range(8)],
         functions=["ItemNumber.validate_value/encode/value", "Item._verify_value_in_bounds", "variables.BaseNumber.encode (differential)"],
         bounds="ItemU1..I8; scalar and list (0..2) constructor forms with unbounded symbolic ints; bytes == reference == variables API",
         outside="lists > 2"),
    dict(name="int_decode", fn="int_decode", timeout=300,
         functions=["ItemNumber.decode", "Item.decode dispatch", "Item._decode_item_header", "PacketData"],
         bounds="0..2 elements of fresh symbolic payload bytes per integer class, typed and generic decode"),
    dict(name="from_value_int", fn="from_value_int", timeout=300, functions=["Item.from_value/_from_value_int"],
         bounds="one symbolic int over [-2^63-2, 2^64+1]: class == narrowest unsigned/signed width, value kept, bytes == reference; "
                "outside the representable range: ValueError"),
    dict(name="str_items", fn="str_items", timeout=300, functions=["ItemStr.validate_value/encode/value (ItemA)", "Item.from_value(str)"],
         bounds="symbolic tail 0..3 chars (all 256 code points) after prefix 0/253; str and bytes constructor forms; == variables.String"),
    dict(name="str_decode", fn="str_decode", timeout=300, functions=["ItemStr.decode", "Item.decode"],
         bounds="fresh payload bytes 0..3 after prefix 0/253"),
    dict(name="bin_items", fn="bin_items", timeout=300, functions=["ItemB.validate_value/_validate_list_value/encode/value", "Item.from_value(bytes)"],
         bounds="symbolic tail 0..3 bytes after prefix 0/253; forms: bytes, list of ints, list of bytes chunks, from_value; == variables.Binary"),
    dict(name="bin_scalar", fn="bin_scalar", timeout=60, functions=["ItemB.validate_value(int)"], bounds="one symbolic int -2..257"),
    dict(name="bin_decode", fn="bin_decode", timeout=300, functions=["ItemB.decode", "Item.decode"], bounds="fresh payload 0..3 after prefix 0/253"),
    dict(name="bool_items", fn="bool_items", timeout=120, functions=["ItemBOOLEAN.validate_value/encode/value", "Item.from_value(bool)"],
         bounds="1..3 symbolic booleans; bool list, 0/1 int list, from_value forms; == variables.Boolean"),
    dict(name="bool_decode", fn="bool_decode", timeout=120, functions=["ItemBOOLEAN.decode"], bounds="0..3 fresh bytes"),
    dict(name="list_items", fn="list_items", timeout=600, parts=["shape == %d" % i for i in range(4)],
         functions=["ItemL.validate_value/encode/value", "Item.from_value(list) recursion"],
         bounds="4 nested list shapes (depth <= 3) with symbolic int (32-bit range), str, bytes, bool leaves"),
    dict(name="list_decode", fn="list_decode", timeout=300, functions=["ItemL.decode", "Item.decode recursion"],
         bounds="3 nested shapes, leaf payloads fresh symbolic bytes"),
    dict(name="float_lemmas", fn="float_lemmas", kind="native", timeout=300,
         functions=["Item._verify_value_in_bounds (AST -> z3 FP)", "ItemF4/ItemF8 limits"],
         bounds="every finite binary32/64 wire value; every finite double accepted by the guard"),
    dict(name="from_value_float", fn="from_value_float", kind="native", timeout=60, functions=["Item._from_value_float"], bounds="7 boundary values"),
]
