"""C01 obligations: SECS-II variables encode exactly as E5 prescribes and round-trip.

Pivot rule (DESIGN §2.1): the library encoder is compared with the independent reference encoder (oracles/refe5.py),
the library decoder is run on *fresh byte symbols* inside concrete structure headers and compared with the reference
value function. lib.decode(lib.encode(v)) == v follows from the two sides plus ref.value(ref.encode(v)) == v, which is
a property of the reference alone (obligation ref_roundtrip, z3 bit-vectors)."""
from typing import List

from engine.chx import fin, pick
from oracles import refe5
import secsgem.secs.variables as V

_CLASSES = [V.List, V.Binary, V.Boolean, V.String, V.JIS8, V.I8, V.I1, V.I2, V.I4, V.F8, V.F4, V.U8, V.U1, V.U2, V.U4]
_INTS = [V.U1, V.U2, V.U4, V.U8, V.I1, V.I2, V.I4, V.I8]


def _bare(cls):
    return cls.__new__(cls)


def hdr_encode(length: int, k: int) -> bool:
    """
    pre: 0 <= k < 15
    pre: -2 <= length <= 2**24 + 1
    post: _
    """
    cls = pick(_CLASSES, k)
    obj = _bare(cls)
    code = cls.format_code
    try:
        got = obj.encode_item_header(length)
    except ValueError:
        return fin(length < 0 or length > 0xFFFFFF)
    if length < 0 or length > 0xFFFFFF:
        return False
    return fin(list(got) == refe5.header(code, length))


def hdr_decode(b: bytes, k: int, off: int) -> bool:
    """
    pre: 0 <= k < 15
    pre: len(b) == 5
    pre: 0 <= off <= 2
    post: _
    """
    cls = pick(_CLASSES, k)
    obj = _bare(cls)
    nlb = b[0] % 4
    code = b[0] // 4
    data = pick([b"", b"\x09", b"\x09\x09"], off) + b
    try:
        pos, gcode, glen = obj.decode_item_header(data, off)
    except ValueError:
        return fin(code != cls.format_code)
    if code != cls.format_code:
        return False
    want = 0
    for x in [b[1], b[2], b[3]][:nlb]:
        want = want * 256 + x
    return fin(pos == off + 1 + nlb and gcode == code and glen == want)


def int_encode(vals: List[int], k: int) -> bool:
    """
    pre: 0 <= k < 8
    pre: len(vals) <= 4
    post: _
    """
    cls = pick(_INTS, k)
    lo, hi = refe5.int_range(cls.format_code)
    ok = all(lo <= v <= hi for v in vals)
    try:
        obj = cls(list(vals))
    except ValueError:
        return fin(not ok)
    if not ok:
        return False
    if list(obj.encode()) != refe5.encode_ints(cls.format_code, vals):
        return False
    got = obj.get()
    return fin(got == (vals[0] if len(vals) == 1 else vals))


def int_scalar(v: int, k: int) -> bool:
    """
    pre: 0 <= k < 8
    post: _
    """
    cls = pick(_INTS, k)
    lo, hi = refe5.int_range(cls.format_code)
    try:
        obj = cls(v)
    except ValueError:
        return fin(not lo <= v <= hi)
    if not lo <= v <= hi:
        return False
    return fin(list(obj.encode()) == refe5.encode_ints(cls.format_code, [v]) and obj.get() == v)


def int_decode(payload: bytes, k: int, n: int, stale: bool) -> bool:
    """
    pre: 0 <= k < 8
    pre: 0 <= n <= 4
    pre: len(payload) == 32
    post: _
    """
    cls = pick(_INTS, k)
    w = refe5.INT_WIDTH[cls.format_code]
    body = payload[: n * w]
    data = bytes(refe5.header(cls.format_code, n * w)) + body
    obj = cls([1, 2]) if stale else cls()
    pos = obj.decode(data)
    want = [refe5.int_value(cls.format_code, list(body[i * w:(i + 1) * w])) for i in range(n)]
    return fin(pos == len(data) and obj.value == want)


def int_long_arrays(first: int, last: int, payload: bytes, k: int, nsel: int, stale: bool) -> bool:
    """
    pre: 0 <= k < 8 and 0 <= nsel <= 3
    pre: len(payload) == 16
    post: _
    """
    # arrays across the 255/256 element boundary (2-byte item length, any per-length fast path): first and last element symbolic,
    # the elements in between concrete; encode against the reference, decode the reference layout with symbolic first/last element
    cls = pick(_INTS, k)
    n = pick([255, 256, 257, 300], nsel)
    lo, hi = refe5.int_range(cls.format_code)
    w = refe5.INT_WIDTH[cls.format_code]
    mid = [(7 * i) % 100 for i in range(n - 2)]
    if lo <= first <= hi and lo <= last <= hi:
        vals = [first] + mid + [last]
        obj = cls(vals)
        if list(obj.encode()) != refe5.encode_ints(cls.format_code, vals) or obj.get() != vals:
            return False
    midb = bytes(b for v in mid for b in refe5.int_bytes(cls.format_code, v))
    b0, b1 = payload[:w], payload[8:8 + w]
    data = bytes(refe5.header(cls.format_code, n * w)) + b0 + midb + b1
    tgt = cls([1, 2]) if stale else cls()
    pos = tgt.decode(data)
    want = [refe5.int_value(cls.format_code, list(b0))] + mid + [refe5.int_value(cls.format_code, list(b1))]
    return fin(pos == len(data) and tgt.value == want)


def _text_prefix(n0):
    return "x" * n0


def str_encode(s: str, big: int) -> bool:
    """
    pre: len(s) <= 3
    pre: all(ord(c) < 256 for c in s)
    pre: 0 <= big <= 2
    post: _
    """
    n0 = pick([0, 253, 65533], big)
    p = _text_prefix(n0) + s
    v = V.String(p)
    return fin(list(v.encode()) == refe5.header(refe5.A, len(p)) + [ord(c) for c in p] and v.get() == p)


def str_decode(b: bytes, big: int, stale: bool) -> bool:
    """
    pre: len(b) <= 3
    pre: 0 <= big <= 2
    post: _
    """
    n0 = pick([0, 253, 65533], big)
    pl = b"x" * n0 + b
    data = bytes(refe5.header(refe5.A, len(pl))) + pl
    v = V.String("old") if stale else V.String()
    pos = v.decode(data)
    return fin(pos == len(data) and [ord(c) for c in v.get()] == list(pl))


def bin_encode(b: bytes, big: int, form: int) -> bool:
    """
    pre: len(b) <= 3
    pre: 0 <= big <= 2
    pre: 0 <= form <= 2
    post: _
    """
    n0 = pick([0, 253, 65533], big)
    pl = b"\x07" * n0 + b
    if form == 0:
        v = V.Binary(pl)
    elif form == 1:
        v = V.Binary(bytearray(pl))
    else:
        v = V.Binary(list(pl))
    if list(v.encode()) != refe5.header(refe5.B, len(pl)) + list(pl):
        return False
    g = v.get()
    return fin(g == pl[0] if len(pl) == 1 else g == pl)


def bin_decode(b: bytes, big: int, stale: bool) -> bool:
    """
    pre: len(b) <= 3
    pre: 0 <= big <= 2
    post: _
    """
    n0 = pick([0, 253, 65533], big)
    pl = b"\x07" * n0 + b
    data = bytes(refe5.header(refe5.B, len(pl))) + pl
    v = V.Binary(b"old") if stale else V.Binary()
    pos = v.decode(data)
    return fin(pos == len(data) and list(v.encode()) == list(data))


def bool_encode(vals: List[bool], big: int) -> bool:
    """
    pre: len(vals) <= 3
    pre: 0 <= big <= 1
    post: _
    """
    n0 = pick([0, 253], big)
    pl = [True] * n0 + list(vals)
    v = V.Boolean(pl)
    want = refe5.header(refe5.BOOLEAN, len(pl)) + [1 if x else 0 for x in pl]
    g = v.get()
    return fin(list(v.encode()) == want and (g == pl[0] if len(pl) == 1 else g == pl))


def bool_decode(b: bytes, stale: bool) -> bool:
    """
    pre: len(b) <= 3
    post: _
    """
    data = bytes(refe5.header(refe5.BOOLEAN, len(b))) + b
    v = V.Boolean([True, False]) if stale else V.Boolean()
    pos = v.decode(data)
    return fin(pos == len(data) and v.value == [x != 0 for x in b])


# ---- nesting: List / Array with symbolic leaves (depth <= 3, width <= 2)
class NU1(V.U1):
    name = "NU1"


class NU2(V.U2):
    name = "NU2"


class NU4(V.U4):
    name = "NU4"


class NI2(V.I2):
    name = "NI2"


class NI4(V.I4):
    name = "NI4"


class NStr(V.String):
    name = "NStr"


class NBin(V.Binary):
    name = "NBin"


class NBool(V.Boolean):
    name = "NBool"


_NEST_FORMATS = [
    [NU2],                                 # Array(U2)
    [NU1, NI4],                            # List(U1, I4)
    [[NU2, NStr]],                         # Array(List(U2, String))
    [NU1, [NI2]],                          # List(U1, Array(I2))
    [[[NU1]]],                             # Array(Array(Array(U1)))
    [NBin, ["SUB", NU4, [NBool]]],         # List(Binary, List "SUB"(U4, Array(Boolean)))
]


def _members(fmt):
    return [x for x in fmt if not isinstance(x, str)]


def _key(item):
    """documented key of a list member: data item name, array -> name of its element, nested list -> its name or DATA"""
    if isinstance(item, list):
        m = _members(item)
        if len(item) == 1:
            return _key(item[0]) if not isinstance(item[0], list) else (item[0][0] if isinstance(item[0][0], str) else "DATA")
        return item[0] if isinstance(item[0], str) else "DATA"
    return item.__name__


def _walk(fmt, leaf, n):
    """build (reference encoding, expected get() value) for fmt; leaf(cls) -> (encoded item, plain value); arrays get n elements"""
    if isinstance(fmt, list):
        if len(fmt) == 1:
            parts = [_walk(fmt[0], leaf, n) for _ in range(n)]
            return refe5.encode_list([e for e, _ in parts]), [v for _, v in parts]
        mem = _members(fmt)
        parts = [_walk(m, leaf, n) for m in mem]
        return refe5.encode_list([e for e, _ in parts]), {_key(m): v for m, (_, v) in zip(mem, parts)}
    return leaf(fmt)


def nested_encode(f: int, a: int, b: int, s: str, bs: bytes, flag: bool, n: int) -> bool:
    """
    pre: 0 <= f < 6
    pre: 0 <= n <= 2
    pre: 0 <= a <= 255
    pre: -32768 <= b <= 32767
    pre: len(s) <= 2 and all(ord(c) < 256 for c in s)
    pre: len(bs) == 2
    post: _
    """
    fmt = pick(_NEST_FORMATS, f)

    def leaf(cls):
        code = cls.format_code
        if code in refe5.INT_WIDTH:
            x = b if code in refe5.SIGNED else a
            return refe5.encode_ints(code, [x]), x
        if code == refe5.A:
            return refe5.encode_bytes_item(code, [ord(c) for c in s]), s
        if code == refe5.B:
            return refe5.encode_bytes_item(code, list(bs)), bs
        return refe5.encode_bytes_item(code, [1 if flag else 0]), flag

    want_bytes, val = _walk(fmt, leaf, n)
    from secsgem.secs.variables.functions import generate
    obj = generate(fmt)
    obj.set(val)
    return fin(list(obj.encode()) == want_bytes and obj.get() == val)


def nested_decode(f: int, p: bytes, n: int) -> bool:
    """
    pre: 0 <= f < 6
    pre: 0 <= n <= 2
    pre: len(p) == 16
    post: _
    """
    # wire form: concrete structure headers (reference encoder), leaf payload bytes are fresh symbols taken from p;
    # expected value computed by the reference value functions on the same symbolic bytes.
    fmt = pick(_NEST_FORMATS, f)
    cur = [0]

    def take(k):
        r = p[cur[0]:cur[0] + k]
        cur[0] += k
        return r

    def leaf(cls):
        code = cls.format_code
        if code in refe5.INT_WIDTH:
            raw = take(refe5.INT_WIDTH[code])
            return refe5.header(code, len(raw)) + list(raw), refe5.int_value(code, list(raw))
        if code == refe5.A:
            raw = take(2)
            return refe5.header(code, 2) + list(raw), "".join(chr(x) for x in raw)
        if code == refe5.B:
            raw = take(2)
            return refe5.header(code, 2) + list(raw), raw
        raw = take(1)
        return refe5.header(code, 1) + list(raw), raw[0] != 0

    enc, want = _walk(fmt, leaf, n)
    if cur[0] > 16:
        return True
    from secsgem.secs.variables.functions import generate
    obj = generate(fmt)
    data = bytes(enc)
    pos = obj.decode(data)
    return fin(pos == len(data) and obj.get() == want)


OBLIGATIONS = [
    dict(name="hdr_encode", fn="hdr_encode", timeout=120,
         functions=["secsgem.secs.variables.base.Base.encode_item_header"],
         bounds="every length in [-2, 2^24+1] (one symbolic int), all 15 item classes"),
    dict(name="hdr_decode", fn="hdr_decode", timeout=240,
         functions=["secsgem.secs.variables.base.Base.decode_item_header"],
         bounds="every format byte and 3 length bytes (4 symbolic bytes: all 1..3-length-byte forms incl. non-minimal and the "
                "0-length-byte form), start offset 0..2, all 15 receiving classes"),
    dict(name="int_encode", fn="int_encode", timeout=300, parts={"quick": ["k == %d and len(vals) <= %d" % (i, 2 if i in (3, 7) else 3) for i in range(8)],
                "thorough": ["k == %d and len(vals) <= %d" % (i, 2 if i in (3, 7) else 3) for i in range(8)]
                + ["k == %d and len(vals) == 4" % i for i in (0, 1, 2, 4, 5, 6)]},
         functions=["BaseNumber.__init__/set/_set_list/encode/get", "Base.encode_item_header", "struct.pack (patched model)"],
         bounds="U1..U4, I1..I4: list of 0..3 (thorough 0..4) unbounded symbolic ints; U8/I8: 0..2 (3 x 64-bit div/mod chains exceed the solver "
                "timeout); in range: bytes == reference and get() returns the value; out of range: ValueError",
         outside="lists longer than 3 (2 for 8-byte widths) elements"),
    dict(name="int_long_arrays", fn="int_long_arrays", timeout=600,
         parts={"quick": ["k == %d and nsel == 1" % i for i in range(8)],
                "thorough": ["k == %d and nsel == %d" % (i, j) for i in range(8) for j in range(4)]},
         functions=["BaseNumber.set/_set_list/encode/decode/get for arrays of 255..300 elements", "Base.encode_item_header/decode_item_header (2 length bytes)"],
         bounds="U1..U8, I1..I8; arrays of 256 (thorough 255, 256, 257, 300) elements, first and last element symbolic over the full width "
                "(encode) / as symbolic bytes (decode), elements in between concrete",
         outside="more than two symbolic elements in a long array; other lengths"),
    dict(name="int_scalar", fn="int_scalar", timeout=120,
         functions=["BaseNumber.set scalar branch", "encode", "get"],
         bounds="U1..U8, I1..I8; one unbounded symbolic int"),
    dict(name="int_decode", fn="int_decode", timeout=600,
         parts={"quick": ["n <= 3"], "thorough": ["n <= 3", "n == 4 and k < 4", "n == 4 and k >= 4"]},
         functions=["BaseNumber.decode", "Base.decode_item_header", "struct.unpack (patched model)", "BaseNumber.set"],
         bounds="U1..U8, I1..I8; 0..3 (thorough 0..4) elements of fresh symbolic payload bytes; fresh and previously used target object",
         outside="more than 3 elements"),
    dict(name="str_encode", fn="str_encode", timeout=200, parts=["big == 0", "big == 1"],
         functions=["BaseText.set/encode/get (String, latin-1)"],
         bounds="symbolic tail of 0..3 chars over all 256 code points after a concrete prefix of 0 / 253 / 65533 chars "
                "(crosses the 255/256 length-byte boundary with a symbolic length; the 65535/65536 and 16777215 boundaries of String are "
                "run concretely in boundary_concrete - a 65 533-char symbolic str did not finish in 400 s; Binary crosses all three symbolically)",
         outside="symbolic part longer than 3"),
    dict(name="str_decode", fn="str_decode", timeout=200, parts=["big == 0", "big == 1"], functions=["BaseText.decode (String)"],
         bounds="as str_encode, payload bytes fresh symbols; fresh and previously used target object"),
    dict(name="bin_encode", fn="bin_encode", timeout=400, parts=["big == 0", "big == 1", "big == 2"], functions=["Binary.set/encode/get"],
         bounds="symbolic tail 0..3 bytes after prefix 0/253/65533; constructor forms bytes, bytearray, list"),
    dict(name="bin_decode", fn="bin_decode", timeout=400, parts=["big == 0", "big == 1", "big == 2"], functions=["Binary.decode"],
         bounds="as bin_encode; fresh and previously used target (zero-length item must not keep the stale value)"),
    dict(name="bool_encode", fn="bool_encode", timeout=120, functions=["Boolean.set/encode/get"],
         bounds="0..3 symbolic booleans after prefix 0/253"),
    dict(name="bool_decode", fn="bool_decode", timeout=120, functions=["Boolean.decode"],
         bounds="0..3 fresh symbolic bytes (any non-zero byte = True)"),
    dict(name="nested_encode", fn="nested_encode", timeout=300,
         functions=["variables.functions.generate", "Array.set/encode", "List.set/encode", "leaf encoders"],
         bounds="6 format trees of depth <= 3 (Array/List mixes), open arrays of length 0..2, symbolic leaves",
         outside="width > 2, depth > 3"),
    dict(name="nested_decode", fn="nested_decode", timeout=300,
         functions=["Array.decode", "List.decode", "leaf decoders"],
         bounds="same 6 trees, leaf payload bytes fresh symbols inside reference-built headers"),
]


# ---------------------------------------------------------------- native obligations (direct z3 / finite tables)
def _float_lemmas(classes, set_fn_of, decode_of, encode_of, header_of):
    """E2 lemmas. classes: [(cls, bits)] ; returns native verdict dict"""
    import math
    import struct
    import z3
    from engine import fp
    S = fp.Session()
    notes = []
    for cls, bits, consts, scalar_fn, list_fn in classes:
        sort = fp.F32 if bits == 32 else fp.F64
        b = z3.FP("b", sort)
        v = z3.FP("v", fp.F64)
        finite = lambda t: z3.And(z3.Not(z3.fpIsNaN(t)), z3.Not(z3.fpIsInf(t)))
        to64 = (lambda t: z3.fpToFP(fp.RNE, t, fp.F64)) if bits == 32 else (lambda t: t)
        to_wire = (lambda t: z3.fpToFP(fp.RNE, t, fp.F32)) if bits == 32 else (lambda t: t)
        rej_dec, g1 = fp.reject_expr(cls, list_fn, to64(b), consts)
        rej_enc, g2 = fp.reject_expr(cls, scalar_fn, v, consts)
        rej_rt, _ = fp.reject_expr(cls, list_fn, to64(to_wire(v)), consts)
        notes.append({"class": cls.__name__, "guards": sorted(set(g1 + g2)), "consts": consts})
        # translator validation: guard-as-z3 vs real constructor on a table of concrete doubles
        fmax = struct.unpack(">f", bytes.fromhex("7f7fffff"))[0]
        table = [0.0, -0.0, 1.5, consts[list(consts)[0]], consts[list(consts)[1]], fmax, -fmax, 1e39, -1e39, 1e-46,
                 math.nextafter(fmax, math.inf), 1.7976931348623157e308, -1.7976931348623157e308, math.inf, -math.inf]
        for t in table:
            zr, _ = fp.reject_expr(cls, scalar_fn, z3.FPVal(t, fp.F64), consts)
            z_rej = z3.is_true(z3.simplify(zr))
            try:
                cls(t)
                real_rej = False
            except ValueError:
                real_rej = True
            except OverflowError:
                real_rej = False
            if z_rej != real_rej:
                return {"state": "error", "error": f"E2 translator disagrees with {cls.__name__}({t!r}): z3 {z_rej} real {real_rej}"}
        # Q1 decode side: a finite wire value the decoder refuses
        r, m = S.check(f"{cls.__name__}:finite-encoding-rejected", finite(b), rej_dec)
        if r == "sat":
            val, raw = fp.fp_to_py(m, b, bits)
            data = bytes(header_of(cls, bits // 8)) + raw.to_bytes(bits // 8, "big")
            try:
                decode_of(cls, data)
                rep = False
            except Exception as e:
                rep = True
                detail = repr(e)
            return {"state": "refuted", "reproduced": rep, "cex": {"class": cls.__name__, "wire": data.hex(), "value": val},
                    "detail": "valid finite IEEE encoding rejected by decode: " + (detail if rep else "not reproduced"),
                    "solver_calls": S.calls, "solver_s": round(S.time, 3), "extra": S.log}
        if r != "unsat":
            return {"state": "unknown", "extra": S.log}
        # Q2 encode side: accepted double that overflows the wire format
        r, m = S.check(f"{cls.__name__}:accepted-overflows", finite(v), z3.Not(rej_enc), z3.fpIsInf(to_wire(v)))
        if r == "sat":
            val, _ = fp.fp_to_py(m, v, 64)
            try:
                encode_of(cls, val)
                rep = False
            except Exception as e:
                rep = True
            return {"state": "refuted", "reproduced": rep, "cex": {"class": cls.__name__, "value": val},
                    "detail": "accepted value cannot be encoded", "solver_calls": S.calls, "solver_s": round(S.time, 3)}
        if r != "unsat":
            return {"state": "unknown", "extra": S.log}
        # Q3 round trip: accepted double whose own encoding the decoder refuses
        r, m = S.check(f"{cls.__name__}:own-encoding-rejected", finite(v), z3.Not(rej_enc),
                       z3.Not(z3.fpIsInf(to_wire(v))), rej_rt)
        if r == "sat":
            val, _ = fp.fp_to_py(m, v, 64)
            try:
                decode_of(cls, encode_of(cls, val))
                rep = False
            except Exception as e:
                rep = True
            return {"state": "refuted", "reproduced": rep, "cex": {"class": cls.__name__, "value": val},
                    "detail": "accepted value encodes to bytes that decode rejects", "solver_calls": S.calls,
                    "solver_s": round(S.time, 3)}
        if r != "unsat":
            return {"state": "unknown", "extra": S.log}
        # concrete spot replay of exactness on boundary values (struct.pack is CPython's; RNE assumed, checked on models)
        for t in [0.0, 1.5, fmax if bits == 32 else 1.7976931348623157e308, 1e-46, 0.1]:
            enc = encode_of(cls, t)
            want = struct.pack(">f" if bits == 32 else ">d", t)
            if bytes(enc[-(bits // 8):]) != want:
                return {"state": "refuted", "reproduced": True, "cex": {"class": cls.__name__, "value": t},
                        "detail": "payload differs from IEEE big-endian"}
    return {"state": "confirmed", "solver_calls": S.calls, "solver_s": round(S.time, 3), "paths": S.calls,
            "extra": {"queries": S.log, "guards": notes}}


def float_lemmas():
    from secsgem.secs.variables.base_number import BaseNumber

    def dec(cls, data):
        o = cls()
        pos = o.decode(bytes(data))
        assert pos == len(data)
        return o

    def enc(cls, val):
        return cls(val).encode()

    classes = [(c, bits, {"self._min": c._min, "self._max": c._max}, BaseNumber.set, BaseNumber._set_list)
               for c, bits in ((V.F4, 32), (V.F8, 64))]
    return _float_lemmas(classes, None, dec, enc, lambda cls, n: refe5.header(cls.format_code, n))


def ref_roundtrip():
    """the reference's value function inverts its encoder for every value of every integer width: the real
    refe5.int_bytes / refe5.int_value code is executed on z3 Int terms (both are branch-free in the value)"""
    import z3
    import time
    z3.ArithRef.__floordiv__ = z3.ArithRef.__truediv__   # Int sort: SMT-LIB `div` (floor for positive divisors)
    calls, t0, log = 0, time.perf_counter(), []
    for code, n in refe5.INT_WIDTH.items():
        v = z3.Int("v")
        lo, hi = refe5.int_range(code)
        bs = refe5.int_bytes(code, v)
        back = refe5.int_value(code, bs)
        s = z3.Solver()
        s.set("timeout", 60000)
        s.add(v >= lo, v <= hi, z3.Or(back != v, *[z3.Or(b < 0, b > 255) for b in bs]))
        calls += 1
        r = str(s.check())
        log.append({"code": oct(code), "result": r})
        if r == "sat":
            return {"state": "refuted", "reproduced": True, "cex": {"code": code, "v": str(s.model()[v])}}
        if r != "unsat":
            return {"state": "unknown", "extra": log}
        # fresh bytes -> value -> bytes
        b = [z3.Int(f"b{i}") for i in range(n)]
        s = z3.Solver()
        s.set("timeout", 60000)
        val = refe5.int_value(code, b)
        again = refe5.int_bytes(code, val)
        s.add(*[z3.And(x >= 0, x <= 255) for x in b], z3.Or(val < lo, val > hi, *[x != y for x, y in zip(b, again)]))
        calls += 1
        r = str(s.check())
        log.append({"code": oct(code), "dir": "bytes->value->bytes", "result": r})
        if r == "sat":
            return {"state": "refuted", "reproduced": True, "cex": {"code": code, "model": str(s.model())}}
        if r != "unsat":
            return {"state": "unknown", "extra": log}
    return {"state": "confirmed", "solver_calls": calls, "solver_s": round(time.perf_counter() - t0, 3), "paths": calls,
            "extra": log}


def jis8_table():
    """finite table, exhaustively: every code point 0..0x10FFFF as a 1-char JIS8 and every byte 0..255; all byte pairs"""
    import unicodedata
    ref_dec = {b: b for b in range(256)}
    ref_dec[0x5C] = 0xA5
    ref_dec[0x7E] = 0x203E
    for b in range(0xA1, 0xE0):
        ref_dec[b] = 0xFF61 + (b - 0xA1)   # JIS X 0201 katakana block -> U+FF61..U+FF9F
    ref_enc = {u: b for b, u in ref_dec.items()}
    n = 0
    for cp in range(0x110000):
        ch = chr(cp)
        n += 1
        try:
            o = V.JIS8(ch)
            acc = True
        except (UnicodeError, ValueError):
            acc = False
        if acc != (cp in ref_enc):
            return {"state": "refuted", "reproduced": True, "cex": {"codepoint": cp, "accepted": acc}}
        if acc:
            want = refe5.header(refe5.J, 1) + [ref_enc[cp]]
            if list(o.encode()) != want:
                return {"state": "refuted", "reproduced": True, "cex": {"codepoint": cp, "bytes": o.encode().hex()}}
            d = V.JIS8()
            try:
                pos = d.decode(bytes(want))
            except Exception as e:
                return {"state": "refuted", "reproduced": True, "cex": {"codepoint": cp, "decode raised": repr(e)}}
            if pos != 3 or d.get() != ch:
                return {"state": "refuted", "reproduced": True, "cex": {"codepoint": cp, "decoded": d.get()}}
    for b1 in range(256):
        for b2 in range(256):
            n += 1
            data = bytes(refe5.header(refe5.J, 2) + [b1, b2])
            d = V.JIS8()
            try:
                pos = d.decode(data)
            except Exception as e:
                return {"state": "refuted", "reproduced": True, "cex": {"bytes": data.hex(), "decode raised": repr(e)}}
            if pos != 4 or [ord(c) for c in d.get()] != [ref_dec[b1], ref_dec[b2]] or d.encode() != data:
                return {"state": "refuted", "reproduced": True, "cex": {"bytes": data.hex()}}
    return {"state": "confirmed", "paths": n, "extra": "exhaustive finite enumeration (not a solver query): 1114112 code points + 65536 byte pairs"}


def big_16mib():
    """the 16 777 215 boundary with real payloads (concrete, outside the tracer; header arithmetic for every length is hdr_encode)"""
    for m in (65535, 65536):
        for pl in ("z" * m, "\xff" * m):
            o = V.String(pl)
            e = o.encode()
            d = V.String()
            if list(e[:4]) != (refe5.header(refe5.A, m) + [ord(pl[0])])[:4] or len(e) != m + len(refe5.header(refe5.A, m)) \
                    or d.decode(e) != len(e) or d.get() != pl:
                return {"state": "refuted", "reproduced": True, "cex": {"class": "String", "len": m}}
    n = 0xFFFFFF
    for cls, pl, code in ((V.Binary, b"\x05" * n, refe5.B), (V.String, "y" * n, refe5.A)):
        o = cls(pl)
        e = o.encode()
        if e[:4] != bytes([code * 4 + 3, 0xFF, 0xFF, 0xFF]) or len(e) != n + 4:
            return {"state": "refuted", "reproduced": True, "cex": {"class": cls.__name__, "len": n}}
        d = cls()
        if d.decode(e) != n + 4 or d.get() != pl:
            return {"state": "refuted", "reproduced": True, "cex": {"class": cls.__name__, "len": n, "stage": "decode"}}
        try:
            cls(pl + pl[:1]).encode()
            return {"state": "refuted", "reproduced": True, "cex": {"class": cls.__name__, "len": n + 1, "stage": "too long accepted"}}
        except ValueError:
            pass
    return {"state": "confirmed", "paths": 6, "extra": "concrete boundary run"}


OBLIGATIONS += [
    dict(name="float_lemmas", fn="float_lemmas", kind="native", timeout=300,
         functions=["BaseNumber.set / _set_list range guards (AST -> z3 FP)", "F4/F8 _min/_max", "struct.pack('>f') as RNE double->single"],
         bounds="every finite binary32 / binary64 wire value; every finite double accepted by the guard (3 z3 FP queries per class)",
         outside="NaN payloads; struct.pack itself is CPython's (assumed IEEE RNE, spot-checked on models)"),
    dict(name="ref_roundtrip", fn="ref_roundtrip", kind="native", timeout=120,
         functions=["oracles.refe5.int_bytes/int_value"], bounds="all values of all 8 integer widths (z3 BV + Int)"),
    dict(name="jis8_table", fn="jis8_table", kind="native", timeout=300,
         functions=["secsgem.common.codec_jis_x_0201", "JIS8.set/encode/decode"],
         bounds="finite: all 1 114 112 code points as 1-char text, all 65 536 two-byte payloads (exhaustive enumeration, no solver)"),
    dict(name="big_16mib", fn="big_16mib", kind="native", timeout=300,
         functions=["Binary/String encode+decode at 16 777 215 bytes; 16 777 216 rejected"], bounds="2 concrete payloads"),
]
