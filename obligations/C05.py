"""C05: the HSMS session follows the E37 connect/select model - one inductive step from every session state."""
import queue

from engine.chx import fin, pick
from oracles import refe37
from rigs import hsms as rig
import secsgem.hsms.protocol as hp
from secsgem.hsms.header import HsmsHeader, HsmsSType
from secsgem.hsms.message import HsmsBlock
from secsgem.hsms.connection_state_machine import ConnectionState

_ST = [HsmsSType(v) for v in refe37.STYPES]
_STATES = [ConnectionState.NOT_CONNECTED, ConnectionState.CONNECTED_NOT_SELECTED, ConnectionState.CONNECTED_SELECTED]
I_DATA, I_SELREQ, I_SELRSP, I_DESREQ, I_DESRSP, I_LTREQ, I_LTRSP, I_REJ, I_SEP = range(9)


def _ctrl(s_type, system, byte2=0, byte3=0):
    """E37 control message: session id 0xFFFF, PType 0, no body"""
    return bytes(refe37.frame([255, 255, byte2, byte3, 0, s_type] + refe37.header(system, 0, 0, 0, False, 0, 0)[6:], []))


def control_step(state: int, disc: bool, st: int, system: int, session: int, b2: int, b3: int, has_open: bool,
                 open_sys: int) -> bool:
    """
    pre: 1 <= state <= 2
    pre: 1 <= st < 9
    pre: 0 <= system < 2**32 and 0 <= open_sys < 2**32 and 0 <= session < 2**16
    pre: 0 <= b2 < 128 and 0 <= b3 < 256
    post: _
    """
    p, c, delivered = rig.make_protocol()
    rig.set_state(p, state)
    c._disconnecting = disc
    q = None
    if has_open:
        q = p._get_queue_for_system(open_sys)
    s_type = pick(_ST, st)
    p._dispatch_block(p, HsmsBlock(HsmsHeader(system, session, b2, b3, False, 0, s_type), b""))
    now = p.connection_state.current
    before = _STATES[state]
    matches_open = has_open and open_sys == system
    if len(delivered) != 0:
        return False                                   # control messages never reach the application
    if st in (I_SELREQ, I_DESREQ, I_LTREQ):
        if disc:
            # closing: Reject carrying the request's system bytes, SType of the request, reason 4; state unchanged
            return fin(c.wire == [_ctrl(7, system, s_type.value, 4)] and now == before)
        rsp = {I_SELREQ: 2, I_DESREQ: 4, I_LTREQ: 6}[st]
        if len(c.wire) != 1 or c.wire[0][:4] != _ctrl(rsp, system)[:4] or c.wire[0][8:] != _ctrl(rsp, system)[8:] \
                or c.wire[0][4:6] != b"\xff\xff":
            return False                               # exactly one response, matching type, same system bytes (status byte free)
        want = {I_SELREQ: ConnectionState.CONNECTED_SELECTED, I_DESREQ: ConnectionState.CONNECTED_NOT_SELECTED,
                I_LTREQ: before}[st]
        return fin(now == want)
    # responses / Reject / Separate: nothing may be answered with a response-type message
    for w in c.wire:
        if w[9] != 7:                                   # a Reject.req is the only frame E37 allows here
            return False
    if st == I_SELRSP:
        ok_sel = matches_open and b3 == 0              # answers our open Select.req with SelectStatus 0
        want = ConnectionState.CONNECTED_SELECTED if (ok_sel or state == 2) else before
        return fin(now == want)
    if st == I_DESRSP:
        ok_des = matches_open and b3 == 0
        want = ConnectionState.CONNECTED_NOT_SELECTED if (ok_des or state == 1) else before
        return fin(now == want)
    if st == I_SEP:
        # Separate.req ends the session at once: NOT CONNECTED (or the connection's close has been initiated)
        return fin(now == ConnectionState.NOT_CONNECTED or c.disconnecting)
    # Linktest.rsp, Reject.req: state unchanged; delivered to the waiting transaction if any
    return fin(now == before and (not matches_open or q.qsize() == 1))


UNSOLICITED = "st in (2, 4) and not (has_open and open_sys == system and b3 == 0) and state == (1 if st == 2 else 2)"
SEPARATE = "st == 8"


def data_step(state: int, system: int, session: int, w: bool, known: bool, fn: int, has_open: bool, open_sys: int) -> bool:
    """
    pre: 1 <= state <= 2
    pre: 0 <= system < 2**32 and 0 <= open_sys < 2**32 and 0 <= session < 2**16
    pre: 0 <= fn < 256
    post: _
    """
    p, c, delivered = rig.make_protocol()
    rig.set_state(p, state)
    q = None
    if has_open:
        q = p._get_queue_for_system(open_sys)
    # header-only messages are well-formed SECS-II messages: S1F1 (catalogued) or S99Fxx (not in the catalogue)
    stream, function = (1, 1) if known else (99, fn)
    p._dispatch_block(p, HsmsBlock(HsmsHeader(system, session, stream, function, w, 0, HsmsSType.DATA_MESSAGE), b""))
    now = p.connection_state.current
    if now != _STATES[state]:
        return False
    if state == 1:
        # not selected: never delivered, answered by Reject.req (SType of the message = 0, reason 4 entity not selected)
        return fin(len(delivered) == 0 and (q is None or q.qsize() == 0) and c.wire == [_ctrl(7, system, 0, 4)])
    if has_open and open_sys == system:
        return fin(len(delivered) == 0 and q.qsize() == 1 and c.wire == [])
    ok = len(delivered) == 1 and c.wire == [] and (q is None or q.qsize() == 0)
    if ok:
        h = delivered[0].header
        ok = h.system == system and h.stream == stream and h.function == function and h.require_response == w \
            and h.device_id == session
    return fin(ok)


UNCATALOGUED = "not known"


def select_in_flight(system: int, disc: bool) -> bool:
    """
    pre: 0 <= system < 2**32
    post: _
    """
    # the peer's Select.req is already in the receive path when the connection is accepted: it is dispatched at the
    # earliest moment a dispatcher thread can run, i.e. inside ProtocolDispatcher.start(). Whatever the order inside
    # _on_connected, a Select.rsp that was sent commits the endpoint to SELECTED; otherwise Reject / NOT SELECTED.
    p, c, delivered = rig.make_protocol()
    rig.set_state(p, 0)
    c._disconnecting = disc
    block = HsmsBlock(HsmsHeader(system, 0xFFFF, 0, 0, False, 0, HsmsSType.SELECT_REQ), b"")
    p._thread.start = lambda: p._dispatch_block(p, block)
    hp.threading = rig.FakeThreading()
    p._on_connected({"source": c})
    sent_rsp = [w for w in c.wire if w[9] == 2]
    sent_rej = [w for w in c.wire if w[9] == 7]
    if len(sent_rsp) + len(sent_rej) != 1:
        return False
    now = p.connection_state.current
    if sent_rsp:
        return fin(sent_rsp[0] == _ctrl(2, system) and now == ConnectionState.CONNECTED_SELECTED)
    return fin(disc and now == ConnectionState.CONNECTED_NOT_SELECTED)


def connect_events(state: int, active: bool, ev: int) -> bool:
    """
    pre: 0 <= state <= 2
    pre: 0 <= ev <= 1
    post: _
    """
    p, c, delivered = rig.make_protocol(active=active)
    rig.set_state(p, state)
    ft = rig.FakeThreading()
    hp.threading = ft
    p._receive_buffer.append(b"\x00\x00")          # stale partial frame from the old connection
    if ev == 0:
        if state != 0:
            return True                            # a connect can only arrive while NOT CONNECTED
        p._on_connected({"source": c})
        sel = [t for t in ft.threads if t.started and t.target == p._send_select_req_thread]
        return fin(p.connection_state.current == ConnectionState.CONNECTED_NOT_SELECTED and len(sel) == (1 if active else 0)
                   and len([t for t in ft.timers if t.started]) == 1)
    if state == 0:
        return True
    # link lost, then the next connection: bytes that arrive on the new connection before _on_connected runs (the TCP
    # receiver is started first) must survive, the stale partial frame of the old connection must not
    p._on_disconnected({"source": c})
    if p.connection_state.current != ConnectionState.NOT_CONNECTED or p.connection_state.connected.active:
        return False
    fresh = bytes(refe37.frame(refe37.header(7, 0xFFFF, 0, 0, False, 0, 5), []))
    p._on_connection_data_received({"source": c, "data": fresh})
    p._on_connected({"source": c})
    return fin(p.connection_state.current == ConnectionState.CONNECTED_NOT_SELECTED
               and bytes(p._receive_buffer._buffer) == fresh)


def own_request_step(which: int, outcome: int, start: int, status: int, state: int) -> bool:
    """
    pre: 0 <= which <= 2 and 0 <= outcome <= 2 and 0 <= start < 2**32 and 0 <= status < 256
    pre: 1 <= state <= 2
    pre: which == 2 or state == which + 1
    post: _
    """
    # (Select is requested while NOT SELECTED, Deselect while SELECTED, Linktest in both)
    # the endpoint's own Select / Deselect / Linktest request: answered in time (outcome 0), send failure (1), T6 expiry (2);
    # afterwards no transaction may stay open, and a LATE response with the same system bytes must not change the session
    p, c, delivered = rig.make_protocol()
    rig.set_state(p, state)
    p._system_counter = start
    p._settings.timeouts.t6 = 0
    mine = (start + 1) % 2**32
    rsp_type = pick([2, 4, 6], which)
    real_send = c.send_data

    def send(data):
        if outcome == 1:
            return False
        ok = real_send(data)
        if outcome == 0:
            p._dispatch_block(p, HsmsBlock(HsmsHeader(mine, 0xFFFF, 0, status, False, 0, HsmsSType(rsp_type)), b""))
        return ok
    c.send_data = send
    r = pick([p.send_select_req, p.send_deselect_req, p.send_linktest_req], which)()
    if len(p._response_queues) != 0:
        return False                                   # the transaction is closed in every outcome
    if outcome == 0:
        if r is None or r.header.system != mine:
            return False
        want = _STATES[state]
        if status == 0 and which == 0:
            want = ConnectionState.CONNECTED_SELECTED
        if status == 0 and which == 1:
            want = ConnectionState.CONNECTED_NOT_SELECTED
        return fin(p.connection_state.current == want)
    if r is not None:
        return False
    before = p.connection_state.current
    p._dispatch_block(p, HsmsBlock(HsmsHeader(mine, 0xFFFF, 0, 0, False, 0, HsmsSType(rsp_type)), b""))
    return fin(p.connection_state.current == before and len(p._response_queues) == 0)


def _open(fid):
    import json
    import os
    path = os.path.join(os.path.dirname(os.path.dirname(os.path.abspath(__file__))), "known_findings.json")
    return any(f["id"] == fid and f["status"] == "open" for f in json.load(open(path))["findings"])


OBLIGATIONS = [
    dict(name="control_step", fn="control_step", timeout=600,
         # the SType 9 partition lies wholly inside the class of the open finding C05-separate-ignored (run as its own job)
         parts=["st == %d" % i for i in range(1, 9) if not (i == 8 and _open("C05-separate-ignored"))],
         functions=["Protocol._dispatch_block", "HsmsProtocol._on_connection_message_received", "__handle_hsms_requests*",
                    "send_select_rsp/deselect_rsp/linktest_rsp/reject_rsp", "Protocol.send_message", "_process_send_queue",
                    "ConnectionStateMachine.select/deselect", "HsmsBlock.encode"],
         bounds="one step from NOT_SELECTED and SELECTED, closing flag, every control SType, all 2^32 system bytes, session id, "
                "header bytes 2/3 (status), one optional open transaction with arbitrary (equal or different) system bytes",
         outside="T6/T7/T8 timers; undefined STypes (rejected by HsmsHeader.decode, see C04)",
         findings=[dict(id="C05-unsolicited-rsp", pred=UNSOLICITED), dict(id="C05-separate-ignored", pred=SEPARATE)]),
    dict(name="data_step", fn="data_step", timeout=600,
         functions=["HsmsProtocol._on_connection_message_received (selected gate, Reject.req, routing)", "StreamsFunctions.decode"],
         bounds="NOT_SELECTED / SELECTED, W-bit, all system bytes, S1F1 and every header-only S99Fxx, optional open transaction",
         outside="messages with bodies (C08)",
         findings=[dict(id="C05-uncatalogued-data", pred=UNCATALOGUED)]),
    dict(name="own_request_step", fn="own_request_step", timeout=300,
         functions=["HsmsProtocol.send_select_req/send_deselect_req/send_linktest_req", "__handle_hsms_requests_*_rsp"],
         bounds="own Select/Deselect/Linktest request from both connected states, any counter start, any status byte: answered in time / "
                "send failure / T6 expiry (T6 = 0), then a late response with the expired system bytes"),
    dict(name="select_in_flight", fn="select_in_flight", timeout=120,
         functions=["_dispatch_block before _on_connected (accept-thread interleaving as an order obligation)"],
         bounds="Select.req with arbitrary system bytes dispatched at the moment the dispatcher is started inside _on_connected",
         findings=[dict(id="C05-select-before-connect", pred="not disc")]),
    dict(name="connect_events", fn="connect_events", timeout=120,
         functions=["HsmsProtocol._on_connected/_on_disconnected/_on_state_connect/_on_state_disconnect"],
         bounds="connect from NOT_CONNECTED (active and passive), disconnect from both connected states; finite, all cases"),
]
ASSUMPTIONS = ["protocol thread replaced by inline sender; threading.Thread/Timer replaced by recording stubs",
               "FakeConn.send_data records frames and succeeds"]
