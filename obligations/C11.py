"""C11: the GEM control state follows the E30 control model - one inductive step from every control state."""
from engine.chx import fin, pick
from rigs import gem as rig
import secsgem.gem
from secsgem.gem.control_state_machine import ControlState
from secsgem.gem.communication_state_machine import CommunicationState
from secsgem.gem.collection_event_link import CollectionEventLink
from secsgem.gem.collection_event_report import CollectionEventReport
from secsgem.common.state_machine import WrongSourceStateError
from secsgem.secs import functions as F

EQ_OFF, ATTEMPT, HOST_OFF, LOCAL, REMOTE = 1, 2, 3, 4, 5          # E30 control state values (SVID ControlState)
_CS = {EQ_OFF: ControlState.EQUIPMENT_OFFLINE, HOST_OFF: ControlState.HOST_OFFLINE, LOCAL: ControlState.ONLINE_LOCAL,
       REMOTE: ControlState.ONLINE_REMOTE}
CE_OFFLINE, CE_LOCAL, CE_REMOTE = 1, 2, 3
OP_ONLINE, OP_OFFLINE, OP_LOCAL, OP_REMOTE, H_S1F15, H_S1F17 = range(6)


def _equipment(state, remembered_local, communicating, en1, en2, en3, probe):
    h, p = rig.make_equipment(symbolic=False)
    sm = h._control_state
    st = {EQ_OFF: sm.equipment_offline, HOST_OFF: sm.host_offline, LOCAL: sm.online_local, REMOTE: sm.online_remote}[state]
    for s in (sm.init, sm.control, sm.offline, sm.equipment_offline, sm.attempt_online, sm.host_offline, sm.online,
              sm.online_local, sm.online_remote):
        s._active = False
    sm._current_state = st
    st._active = True
    sm._online_control_state = "LOCAL" if remembered_local else "REMOTE"
    cm = h._communication_state
    cm._current_state = cm.communicating if communicating else cm.not_communicating
    # the three control-state events are linked to a report and individually enabled
    h._registered_reports[900] = CollectionEventReport(900, [1002])
    for ceid, en in ((CE_OFFLINE, en1), (CE_LOCAL, en2), (CE_REMOTE, en3)):
        lk = CollectionEventLink(h._collection_events[ceid], [900])
        lk.enabled = en
        h._registered_collection_events[ceid] = lk
    # host behaviour for the attempt-online probe S1F1: 0 = S1F2, 1 = something else (S1F0), 2 = no answer
    p.reply = lambda fn, system: None if probe == 2 else rig.Msg(1, 2 if probe == 0 else 0, False, system, None)
    return h, p


def _model(state, remembered_local, communicating, event, probe):
    """E30 control model: (next state, remembered_local, ack, [CEIDs], raises)"""
    online = LOCAL if remembered_local else REMOTE
    ce_on = CE_LOCAL if remembered_local else CE_REMOTE
    if event == OP_ONLINE:
        if state != EQ_OFF:
            return state, remembered_local, None, [], True
        if communicating and probe == 0:
            return online, remembered_local, None, [ce_on], False
        return HOST_OFF, remembered_local, None, [], False
    if event == OP_OFFLINE:
        if state in (LOCAL, REMOTE):
            return EQ_OFF, remembered_local, None, [CE_OFFLINE], False
        if state == HOST_OFF:
            return EQ_OFF, remembered_local, None, None, False          # E30 transition 12 (event report not prescribed here)
        return state, remembered_local, None, [], True
    if event == OP_LOCAL:
        if state == REMOTE:
            return LOCAL, True, None, [CE_LOCAL], False
        return state, remembered_local, None, [], True
    if event == OP_REMOTE:
        if state == LOCAL:
            return REMOTE, False, None, [CE_REMOTE], False
        return state, remembered_local, None, [], True
    if event == H_S1F15:
        if state in (LOCAL, REMOTE):
            return HOST_OFF, remembered_local, 0, [CE_OFFLINE], False
        return state, remembered_local, 0, [], False
    if state == HOST_OFF:
        return online, remembered_local, 0, [ce_on], False
    if state in (LOCAL, REMOTE):
        return state, remembered_local, 2, [], False
    return state, remembered_local, 1, [], False


def control_step(st: int, remembered_local: bool, communicating: bool, event: int, probe: int, en1: bool, en2: bool,
                 en3: bool, system: int) -> bool:
    """
    pre: 0 <= st <= 3 and 0 <= event <= 5 and 0 <= probe <= 2
    pre: 0 <= system < 2**32
    post: _
    """
    state = pick([EQ_OFF, HOST_OFF, LOCAL, REMOTE], st)
    h, p = _equipment(state, remembered_local, communicating, en1, en2, en3, probe)
    want_state, want_rem, want_ack, want_ces, want_raise = _model(state, remembered_local, communicating, event, probe)
    raised = False
    ack = None
    try:
        if event == OP_ONLINE:
            h.control_switch_online()
        elif event == OP_OFFLINE:
            h.control_switch_offline()
        elif event == OP_LOCAL:
            h.control_switch_online_local()
        elif event == OP_REMOTE:
            h.control_switch_online_remote()
        elif event == H_S1F15:
            ack = h._on_s01f15(h, rig.msg(F.SecsS01F15(), system)).get()
        else:
            ack = h._on_s01f17(h, rig.msg(F.SecsS01F17(), system)).get()
    except WrongSourceStateError:
        raised = True
    if raised != want_raise or ack != want_ack:
        return False
    if h._control_state.current != _CS[want_state] or h._get_control_state_id() != want_state:
        return False
    if (h._control_state._online_control_state == "LOCAL") != want_rem:
        return False
    # the reported status variable equals the current state (S1F3 for SVID 1002)
    sv = h._on_s01f03(h, rig.msg(F.SecsS01F03([1002]))).get()
    if sv != [want_state]:
        return False
    # exactly the prescribed control-state events were reported (S6F11), when enabled
    enabled = {CE_OFFLINE: en1, CE_LOCAL: en2, CE_REMOTE: en3}
    sent = [f.get()["CEID"] for kind, f, _ in p.sent if kind == "request" and f.stream == 6 and f.function == 11]
    if want_ces is None:
        return fin(all(c == CE_OFFLINE for c in sent))
    return fin(sent == [c for c in want_ces if enabled[c]])


def host_request_during_probe(remembered_local: bool, which: int, system: int, probe: int) -> bool:
    """
    pre: 0 <= which <= 1 and 0 <= probe <= 2 and 0 <= system < 2**32
    post: _
    """
    # the operator switched online: the S1F1 probe is outstanding (ATTEMPT ONLINE) when a host request arrives - it is handled
    # before the probe's reply is seen. S1F17 is not allowed there (ONLACK 1), S1F15 is acknowledged with 0; neither moves the state
    h, p = _equipment(EQ_OFF, remembered_local, True, False, False, False, probe)
    seen = []

    def reply(fn, sysb):
        if which == 0:
            seen.append((h._on_s01f17(h, rig.msg(F.SecsS01F17(), system)).get(), h._get_control_state_id()))
        else:
            seen.append((h._on_s01f15(h, rig.msg(F.SecsS01F15(), system)).get(), h._get_control_state_id()))
        return None if probe == 2 else rig.Msg(1, 2 if probe == 0 else 0, False, sysb, None)
    p.reply = reply
    h.control_switch_online()
    if len(seen) != 1:
        return False
    ack, during = seen[0]
    want_final = (LOCAL if remembered_local else REMOTE) if probe == 0 else HOST_OFF
    return fin(during == ATTEMPT and ack == (1 if which == 0 else 0) and h._get_control_state_id() == want_final)


def initial_state(cfg: int, local: bool) -> bool:
    """
    pre: 0 <= cfg <= 3
    post: _
    """
    name = pick(["EQUIPMENT_OFFLINE", "ATTEMPT_ONLINE", "HOST_OFFLINE", "ONLINE"], cfg)
    s = rig.RigSettings(device_type=secsgem.common.DeviceType.EQUIPMENT)
    h = secsgem.gem.GemEquipmentHandler(s, name, "LOCAL" if local else "REMOTE")
    # at start-up no communication is established: the attempt-online probe cannot be answered
    want = {0: EQ_OFF, 1: HOST_OFF, 2: HOST_OFF, 3: LOCAL if local else REMOTE}[cfg]
    sm = h._control_state
    active = [x for x in (sm.init, sm.control, sm.offline, sm.equipment_offline, sm.attempt_online, sm.host_offline, sm.online,
                          sm.online_local, sm.online_remote) if x.active]
    return fin(h._get_control_state_id() == want and len(active) == 1 and active[0] is sm.current_state)


OBLIGATIONS = [
    dict(name="control_step", fn="control_step", timeout=600, parts=["event == %d" % i for i in range(6)],
         functions=["StateModelsCapability.control_switch_*/_on_s01f15/_on_s01f17/_on_control_state_attempt_online/_get_control_state_id",
                    "ControlStateMachine transitions + forwarding handlers", "CollectionEventCapability.trigger_collection_events",
                    "StatusDataCollectionCapability._on_s01f03"],
         bounds="every stable control state x remembered LOCAL/REMOTE x communication established or not x operator online/offline/"
                "local/remote and host S1F15/S1F17 (all system bytes) x host probe answer S1F2 / other / none x enabled flags of the three "
                "control-state events: finite control space fully explored; one step from every state covers every history",
         outside="link loss (on_connection_closed) during a control transition",
         findings=[dict(id="C11-host-offline-operator-offline", pred="event == 1 and st == 1")]),
    dict(name="host_request_during_probe", fn="host_request_during_probe", timeout=120,
         functions=["_on_s01f17/_on_s01f15 while _on_control_state_attempt_online waits for the S1F1 reply"],
         bounds="S1F17 / S1F15 (all system bytes) arriving in ATTEMPT ONLINE, probe then answered S1F2 / other / not at all"),
    dict(name="initial_state", fn="initial_state", timeout=120, functions=["GemEquipmentHandler.__init__", "ControlStateMachine.start"],
         bounds="all 4 x 2 initial configurations"),
]
ASSUMPTIONS = ["control/communication state constructed directly; sender thread inline; host probe answer scripted on the protocol stub"]
