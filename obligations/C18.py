"""C18: the state-machine engine keeps one consistent current state (sequential part: inductive step on the real engine)."""
import enum
from typing import List

from engine.chx import fin, pick
from rigs import hsms as rig
import secsgem.common
import secsgem.gem.communication_state_machine as csm_mod
from secsgem.common.state_machine import State, Transition, StateMachine, WrongSourceStateError, UnknownTransitionError
from secsgem.hsms.connection_state_machine import ConnectionStateMachine
from secsgem.gem.control_state_machine import ControlStateMachine
from secsgem.gem.communication_state_machine import CommunicationStateMachine


def _states(sm):
    return [v for v in vars(sm).values() if isinstance(v, State)]


def _anc(s):
    out = []
    while s is not None:
        out.append(s)
        s = s.parent
    return out


def _active_ok(sm, states):
    want = _anc(sm.current_state)
    for s in states:
        if s.active != any(s is w for w in want):
            return False
    return True


class _Spy:
    def __init__(self, states, transitions):
        self.log = []
        for i, s in enumerate(states):
            s.events.enter.register(lambda d, i=i: self.log.append(("enter", i)))
            s.events.leave.register(lambda d, i=i: self.log.append(("leave", i)))
        for i, t in enumerate(transitions):
            t.events.called.register(lambda d, i=i: self.log.append(("called", i)))

    def count(self, kind, i):
        return len([1 for k, j in self.log if k == kind and j == i])


class _Alt:
    """Per state, enter and leave events strictly alternate, starting from the active flag at registration time: no state is
    entered while it is entered, none is left that was not entered; in the end the flags agree with the events seen."""

    def __init__(self, states):
        self.states = states
        self.shadow = [s.active for s in states]
        self.bad = False
        for i, s in enumerate(states):
            # first listener of each event: a handler registered earlier that requests the next transition from inside the
            # event would otherwise make this observer see the follow-up's events before the event that caused them
            s.events.enter._callbacks.insert(0, lambda d, i=i: self._ev(i, True))
            s.events.leave._callbacks.insert(0, lambda d, i=i: self._ev(i, False))

    def _ev(self, i, entering):
        if self.shadow[i] == entering or (entering and not self.states[i].active):
            self.bad = True
        self.shadow[i] = entering

    def ok(self):
        return (not self.bad) and self.shadow == [s.active for s in self.states]


def _set_current(sm, states, cur):
    for s in states:
        s._active = False
    sm._current_state = cur
    for a in _anc(cur):
        a._active = True


class _S:
    timeouts = secsgem.common.Timeouts()
    establish_communication_timeout = 10


def _shipped(which, cfg, onl):
    if which == 0:
        return ConnectionStateMachine()
    if which == 1:
        csm_mod.threading = rig.FakeThreading()      # virtual timers
        return CommunicationStateMachine(_S())
    return ControlStateMachine(pick(["EQUIPMENT_OFFLINE", "ATTEMPT_ONLINE", "HOST_OFFLINE", "ONLINE"], cfg),
                               pick(["LOCAL", "REMOTE"], onl))


def shipped_step(which: int, cfg: int, onl: int, cur: int, t: int) -> bool:
    """
    pre: 0 <= which <= 2 and 0 <= cfg <= 3 and 0 <= onl <= 1
    pre: 0 <= cur < 10 and 0 <= t <= 17
    post: _
    """
    sm = _shipped(which, cfg, onl)
    states = _states(sm)
    trans = sm._transitions
    if cur >= len(states) or t > len(trans):
        return True
    cur_state = pick(states, cur)
    _set_current(sm, states, cur_state)
    spy = _Spy(states, trans)
    alt = _Alt(states)
    before_active = [s.active for s in states]
    unknown = t == len(trans)
    name = "no_such_transition" if unknown else pick(trans, t).name
    tr = None if unknown else pick(trans, t)
    allowed = (not unknown) and any(cur_state is s for s in tr.sources)
    try:
        sm._perform_transition(name)
        raised = None
    except (WrongSourceStateError, UnknownTransitionError) as e:
        raised = e
    if not allowed:
        # refused: raises, nothing changed, nothing fired
        return fin(raised is not None and sm.current_state is cur_state and [s.active for s in states] == before_active
                   and spy.log == [] and isinstance(raised, UnknownTransitionError) == unknown)
    if raised is not None:
        return False
    if not _active_ok(sm, states):
        return False
    # event bookkeeping per state: enter/leave counts are consistent with the change of the active flag, each at most
    # once per performed transition; the requested transition's 'called' fired exactly once
    performed = len([1 for k, _ in spy.log if k == "called"])
    for i, s in enumerate(states):
        e, l = spy.count("enter", i), spy.count("leave", i)
        delta = (1 if s.active else 0) - (1 if before_active[i] else 0)
        if e - l != delta or e > performed or l > performed:
            return False
    if spy.count("called", t) != 1 or not alt.ok():
        return False
    if performed == 1:
        # no forwarding handler involved: the machine is exactly at the requested destination
        return fin(sm.current_state is tr.destination)
    return fin(True)


class _E(enum.Enum):
    A = 0
    B = 1
    C = 2
    D = 3
    E = 4


def _machine(par):
    names = [_E.A, _E.B, _E.C, _E.D, _E.E]
    states = []
    for i in range(5):
        parent = None
        for j in range(i):
            if par[i] == j:
                parent = states[j]
        states.append(State(names[i], names[i].name, parent=parent))
    return states


def _depth(par, i):
    d = 0
    while True:
        p = -1
        for j in range(i):
            if par[i] == j:
                p = j
        if p < 0:
            return d
        i = p
        d += 1


def _root(par, i):
    while True:
        p = -1
        for j in range(i):
            if par[i] == j:
                p = j
        if p < 0:
            return i
        i = p


def uneven(par, src, dst):
    """source and destination sit at different depths below a common ancestor"""
    return _depth(par, src) != _depth(par, dst) and _root(par, src) == _root(par, dst)


def generated_step(par: List[int], cur: int, src: int, dst: int, req: int) -> bool:
    """
    pre: len(par) == 5
    pre: all(-1 <= p < 5 for p in par)
    pre: 0 <= cur < 5 and 0 <= src < 5 and 0 <= dst < 5
    pre: 0 <= req <= 2
    post: _
    """
    # machine: 5 states, parent pointers chosen by the solver (par[i] = j < i, else root), transitions:
    #   0: "go" src -> dst ; 1: "other" dst -> src ; request req (2 = unknown name)
    states = _machine(par)
    sm = StateMachine()
    trans = [Transition("go", states[src], states[dst]), Transition("other", [states[dst]], states[src])]
    sm._transitions = trans
    _set_current(sm, states, states[cur])
    spy = _Spy(states, trans)
    before_active = [s.active for s in states]
    name = pick(["go", "other", "nope"], req)
    allowed = (req == 0 and cur == src) or (req == 1 and cur == dst)
    try:
        sm._perform_transition(name)
        raised = None
    except (WrongSourceStateError, UnknownTransitionError) as e:
        raised = e
    if not allowed:
        return fin(raised is not None and sm.current_state is states[cur] and [s.active for s in states] == before_active
                   and spy.log == [] and isinstance(raised, UnknownTransitionError) == (req == 2))
    if raised is not None:
        return False
    a, b = (src, dst) if req == 0 else (dst, src)
    if sm.current_state is not states[b] or not _active_ok(sm, states):
        return False
    old, new = _anc(states[a]), _anc(states[b])
    for i, s in enumerate(states):
        in_old = any(s is x for x in old)
        in_new = any(s is x for x in new)
        if a == b:
            exited = entered = (i == a)          # external self transition: the state itself is left and re-entered
        else:
            exited = in_old and not in_new
            entered = in_new and not in_old
        if spy.count("leave", i) != (1 if exited else 0) or spy.count("enter", i) != (1 if entered else 0):
            return False
    return fin(spy.count("called", req) == 1 and spy.count("called", 1 - req) == 0)


def nested_request(par: List[int], src: int, dst: int, nxt: int, hook: int) -> bool:
    """
    pre: len(par) == 5
    pre: all(-1 <= p < 5 for p in par)
    pre: 0 <= src < 5 and 0 <= dst < 5 and 0 <= nxt < 5 and 0 <= hook < 5
    post: _
    """
    # a handler on the enter event of state `hook` requests the follow-up transition dst -> nxt from inside the outer
    # transition src -> dst (only when the machine is at dst at that moment, otherwise the request is not allowed anyway)
    states = _machine(par)
    sm = StateMachine()
    trans = [Transition("go", states[src], states[dst]), Transition("next", states[dst], states[nxt])]
    sm._transitions = trans
    _set_current(sm, states, states[src])
    fired = []

    def follow(_):
        if not fired and sm.current_state is states[dst]:
            fired.append(1)
            sm._perform_transition("next")

    alt = _Alt(states)                 # registered first: sees the enter of `hook` before the follow-up runs
    states[hook].events.enter.register(follow)
    spy = _Spy(states, trans)
    sm._perform_transition("go")
    want = states[nxt] if fired else states[dst]
    if sm.current_state is not want:
        return False
    return fin(_active_ok(sm, states) and alt.ok()
               and spy.count("called", 0) == 1 and spy.count("called", 1) == (1 if fired else 0))


def refused_nested_request(par: List[int], src: int, dst: int, hook: int, swallow: bool) -> bool:
    """
    pre: len(par) == 5
    pre: all(-1 <= p < 5 for p in par)
    pre: 0 <= src < 4 and 0 <= dst < 4 and 0 <= hook < 4 and par[4] == -1
    pre: src != dst
    post: _
    """
    # a handler on the enter event of `hook` requests a transition that is NOT allowed at that moment ("go" again, whose source
    # is src while the machine is already at dst): that request raises and must change nothing - the outer transition stays
    # performed, current and active flags stay consistent, later legal requests still work
    states = _machine(par)
    sm = StateMachine()
    trans = [Transition("go", states[src], states[dst]), Transition("back", states[dst], states[src])]
    sm._transitions = trans
    _set_current(sm, states, states[src])
    refused = []

    def follow(_):
        if not refused and sm.current_state is states[dst]:
            refused.append(1)
            if swallow:
                try:
                    sm._perform_transition("go")
                except WrongSourceStateError:
                    pass
            else:
                sm._perform_transition("go")             # the handler lets the refusal propagate

    alt = _Alt(states)
    states[hook].events.enter.register(follow)
    try:
        sm._perform_transition("go")
    except WrongSourceStateError:
        if swallow or not refused:
            return False
        # the refusal of the nested request reached the caller; when it was raised from the destination's own enter handler the
        # outer transition had already switched: the machine must still be in ONE consistent state, dst with all its parents
        # active (this used to fail for non-root destinations: fixed finding C18-nested-parent-entry)
    if sm.current_state is not states[dst] or not _active_ok(sm, states):
        return False
    if swallow and not alt.ok():
        return False                       # (a propagating refusal may cut the entering short: only the flags are guaranteed)
    sm._perform_transition("back")
    return fin(sm.current_state is states[src] and _active_ok(sm, states) and (alt.ok() or not swallow))


OBLIGATIONS = [
    dict(name="shipped_step", fn="shipped_step", timeout=600,
         parts=["which == 0", "which == 1", "which == 2 and cfg == 0", "which == 2 and cfg == 1", "which == 2 and cfg == 2",
                "which == 2 and cfg == 3"],
         functions=["StateMachine._perform_transition/transition", "State.enter/leave", "Transition.__call__",
                    "ConnectionStateMachine", "CommunicationStateMachine (timers virtual)", "ControlStateMachine forwarding handlers"],
         bounds="the three shipped machines (control: all 4x2 configurations); every state as current with active flags == ancestors; "
                "every transition name and an unknown name: finite space, fully explored",
         outside="sequences are covered by induction over the invariant 'active == ancestors(current)'"),
    dict(name="generated_step", fn="generated_step", timeout=900,
         parts={"quick": ["cur == %d and src == %d and par[4] == -1 and dst < 4" % (i, j) for i in range(4) for j in range(4)]
                + ["cur == 3 and src == 3 and dst == 4 and par[3] == 1 and par[4] == 2",      # 3-level slice: cousins
                   "cur == 4 and src == 3 and dst == 4 and par[3] == 1 and par[4] == 2"],
                "thorough": ["cur == %d and src == %d" % (i, j) for i in range(5) for j in range(5)]},
         functions=["StateMachine._perform_transition", "State.enter/leave with parent propagation"],
         bounds="all forests over 4 (quick, plus the 5-state slice where states 3 and 4 hang below states 1 and 2) / 5 (thorough) states (parent pointers symbolic), any current state, one transition src->dst and its reverse, "
                "request go/other/unknown; exact enter/leave/called multiset vs. ancestors(src) / ancestors(dst)",
         outside="> 5 states",
         findings=[dict(id="C18-uneven-depth", pred="uneven(par, src, dst)")]),
    dict(name="nested_request", fn="nested_request", timeout=1000,
         parts={"quick": ["src == %d and dst == %d and par[4] == -1 and nxt < 4 and hook < 4" % (a, b)
                          for a, b in ((1, 0), (2, 1))]
                + ["src == 0 and dst == 3 and par[1] == -1 and par[2] == 1 and par[3] == 2 and par[4] == -1 and nxt < 4 and hook < 4"],
                "thorough": ["src == %d and dst == %d and par[4] == -1 and nxt < 4 and hook < 4" % (a, b)
                             for a in range(4) for b in range(4)]},
         functions=["_perform_transition re-entered from an enter handler"],
         bounds="all forests over 4 states; outer transition src->dst, follow-up dst->nxt requested from the enter handler of any state; "
                "quick: 2 of the 16 (src, dst) pairs plus the 3-level chain 1 > 2 > 3 entered from outside, thorough: all 16",
         outside="follow-ups from leave/called handlers; chains longer than 2",
         findings=[dict(id="C18-uneven-depth", pred="uneven(par, src, dst) or uneven(par, dst, nxt)"),
                   dict(id="C18-nested-parent-entry", pred="par[dst] >= 0 and par[dst] < dst")]),
]
OBLIGATIONS.append(
    dict(name="refused_nested_request", fn="refused_nested_request", timeout=900,
         parts=["src == %d" % i for i in range(4)],
         functions=["_perform_transition refused from inside an enter handler"],
         bounds="all forests over 4 states; a disallowed request issued from the enter handler of any state during src->dst (refusal caught by the "
                "handler or propagating to the caller), then the legal way back",
         findings=[dict(id="C18-uneven-depth", pred="uneven(par, src, dst) or uneven(par, dst, src)")]))
ASSUMPTIONS = ["pre-states are constructed (current + active flags of its ancestors); timers of the communication machine are virtual"]


# ---- concurrent requests (E3b: statement-level interleavings of the real _perform_transition) -------------------------------
class ReplayMismatch(Exception):
    """the schedule found in the statement-level model does not reproduce on real threads: harness problem, not a violation"""


from engine import stmt  # noqa: E402

try:    # rewritten from the current source at import time (inspect.getsource is unreliable under CrossHair's tracing)
    _GEN, _GEN_ERR = stmt.steps(StateMachine._perform_transition), None
except Exception as _e:  # noqa
    _GEN, _GEN_ERR = None, _e


def _concrete(*xs):
    for x in xs:
        if isinstance(x, list):
            if type(x) is not list or not _concrete(*x):
                return False
        elif type(x) not in (int, bool):
            return False
    return True


def _conc_machine(par, cur, s0, d0, s1, d1):
    states = _machine(par)
    sm = StateMachine()
    trans = [Transition("go", states[s0], states[d0]), Transition("other", states[s1], states[d1])]
    sm._transitions = trans
    _set_current(sm, states, states[cur])
    return sm, states, trans, _Spy(states, trans)


def _outcome(sm, states, spy, results):
    kinds = [(r[0] if r[0] != "exc" else type(r[1]).__name__) for r in results]
    cur = [i for i, s in enumerate(states) if s is sm.current_state]
    return (kinds, cur, [s.active for s in states],
            [spy.count("enter", i) for i in range(len(states))], [spy.count("leave", i) for i in range(len(states))],
            [spy.count("called", 0), spy.count("called", 1)])


def _serial(par, cur, s0, d0, s1, d1, names, first):
    sm, states, trans, spy = _conc_machine(par, cur, s0, d0, s1, d1)
    results = [None, None]
    for t in (first, 1 - first):
        try:
            sm._perform_transition(names[t])
            results[t] = ("ret", None)
        except (WrongSourceStateError, UnknownTransitionError) as e:
            results[t] = ("exc", e)
    return _outcome(sm, states, spy, results)


def concurrent_requests(par: List[int], cur: int, s0: int, d0: int, s1: int, d1: int, same: bool, first: int, p1: int, p2: int) -> bool:
    """
    pre: len(par) == 5 and par[3] == -1 and par[4] == -1
    pre: all(-1 <= p < 5 for p in par)
    pre: 0 <= cur < 3 and 0 <= s0 < 3 and 0 <= d0 < 3 and 0 <= s1 < 3 and 0 <= d1 < 3
    pre: 0 <= first <= 1 and 0 <= p1 <= p2 <= 40
    post: _
    """
    # two logical threads request "go" (s0 -> d0) and - same: "go" again, else "other" (s1 -> d1) - at the same time; the
    # scheduler switches between them before the p1-th and the p2-th executed statement of _perform_transition (any two positions:
    # every schedule with <= 2 preemptions; a run has < 40 statements). Whatever the schedule,
    # the result must be the result of one of the two serial orders: refusals, final state, flags, every event count.
    names = ["go", "go" if same else "other"]
    if _GEN is None:
        raise _GEN_ERR
    gen = _GEN
    sm, states, trans, spy = _conc_machine(par, cur, s0, d0, s1, d1)
    results, order = stmt.run([lambda: gen(sm, names[0]), lambda: gen(sm, names[1])], first, [p1, p2])
    got = _outcome(sm, states, spy, results)
    serial = [_serial(par, cur, s0, d0, s1, d1, names, 0), _serial(par, cur, s0, d0, s1, d1, names, 1)]
    if got == serial[0] or got == serial[1]:
        return fin(_active_ok(sm, states))
    if _concrete(par, cur, s0, d0, s1, d1, same, first, p1, p2):
        # replay of a counterexample: force the same order of statements on real threads running the real method
        sm2, states2, trans2, spy2 = _conc_machine(par, cur, s0, d0, s1, d1)
        res2 = stmt.replay_lines(StateMachine._perform_transition,
                                 [lambda: sm2._perform_transition(names[0]), lambda: sm2._perform_transition(names[1])], order)
        real = _outcome(sm2, states2, spy2, [r if r is not None else ("unfinished",) for r in res2])
        if real == serial[0] or real == serial[1]:
            raise ReplayMismatch("model outcome %r, real threads %r, order %r" % (got, real, order))
    return False


OBLIGATIONS.append(
    dict(name="concurrent_requests", fn="concurrent_requests", timeout={"quick": 600, "thorough": 1800},
         parts={"quick": ["cur == %d and same == True and s0 == %d and s1 == 0 and d1 == 0" % (c, c) for c in range(3)]
                + ["cur == %d and same == False and s0 == %d and s1 == %d" % (c, c, c) for c in range(3)],
                "thorough": ["cur == %d and same == %s and s0 == %d" % (c, s, a)
                             for c in range(3) for s in (True, False) for a in range(3)]},
         functions=["StateMachine._perform_transition (statement-level generator regenerated from its source by engine/stmt)",
                    "State.activate/deactivate, Transition.__call__ (atomic callees)"],
         bounds="two concurrent requests on all forests over 3 states, any current state, transitions s0->d0 and s1->d1 (or the same "
                "transition twice) - quick: both requests allowed in the current state, thorough: all sources; thread switches before any statement of _perform_transition, <= 2 preemptions; the outcome "
                "(refusals, current state, active flags, enter/leave/called counts) must equal one of the two serial orders; a "
                "counterexample is replayed on real threads (sys.monitoring LINE hand-over)",
         outside="switches inside callees (State.activate/deactivate, handlers); > 2 threads; > 2 preemptions; handlers that "
                 "request transitions while another thread is active"))
