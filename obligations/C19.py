"""C19: SFDL structure definitions are read exactly as documented (docs/firststeps/sfdl.md)."""
from typing import List

from engine.chx import fin, pick
import secsgem.secs.variables as V
from secsgem.secs.variables.functions import generate
from secsgem.secs import data_items as DI

# item names taken from the live catalogue (distinct, so record keys cannot collide)
_NAMES = ["SVID", "ALID", "CEID", "RPTID", "ALCD", "ALTX", "MDLN", "SOFTREV"]

# structural trees: ("i", k) = data item _NAMES[(base + k) % 8]; ("l", name-or-None, [children])
_TREES = [
    ("i", 0),                                                               # < SVID >
    ("l", None, [("i", 0)]),                                                # open array
    ("l", None, [("i", 0), ("i", 1), ("i", 2)]),                            # record
    ("l", None, [("l", None, [("i", 0), ("i", 1), ("i", 2)])]),             # array of records (S1F22)
    ("l", None, [("i", 0), ("i", 1), ("l", None, [("i", 2)])]),             # nested open list takes the item name (S2F23)
    ("l", None, [("i", 0), ("l", "REPORTS", [("l", None, [("i", 1), ("l", None, [("i", 2)])])])]),   # named list (S2F33)
    ("l", None, [("i", 0), ("i", 1), ("l", "SVIDS", [("i", 2)])]),          # named open list
    ("l", None, [("i", 0), ("l", None, [("l", None, [("i", 1), ("i", 2)])])]),   # unnamed array of records -> DATA
    ("l", None, [("i", 0), ("l", "DS", [("l", None, [("i", 1), ("l", "DV", [("l", None, [("i", 2), ("i", 3)])])])])]),  # S6F8
    ("l", None, [("l", "A1", [("i", 0), ("i", 1)]), ("l", "B1", [("i", 2), ("i", 3)])]),   # named nested records
    ("l", None, [("i", 0), ("l", "Reports", [("l", None, [("i", 1), ("i", 2)])]), ("l", "sample_points", [("i", 3), ("i", 4)])]),  # names as written
]


def _name(k, base):
    return _NAMES[(base + k) % 8]


def _render(node, base, gaps, pos):
    """definition text; gaps are inserted at rotating positions around every token"""
    def gap():
        g = gaps[pos[0] % len(gaps)]
        pos[0] += 1
        return g
    if node[0] == "i":
        return gap() + "<" + gap() + _name(node[1], base) + gap() + ">"
    out = gap() + "<" + gap() + "L"
    if node[1] is not None:
        out += " " + gap() + node[1]
    out += " "
    for ch in node[2]:
        out += _render(ch, base, gaps, pos)
    return out + gap() + ">" + gap()


def _expect(node, base):
    """documented shape: ("item", NAME) | ("array", shape) | ("record", [(key, shape), ...])"""
    if node[0] == "i":
        return ("item", _name(node[1], base))
    kids = node[2]
    if len(kids) == 1:
        return ("array", _expect(kids[0], base))
    rec = []
    for ch in kids:
        if ch[0] == "i":
            key = _name(ch[1], base)
        elif ch[1] is not None:
            key = ch[1]                                   # name after the L tag overrides
        elif len(ch[2]) == 1 and ch[2][0][0] == "i":
            key = _name(ch[2][0][1], base)                # open list of a single data item: the item's name
        else:
            key = "DATA"
        rec.append((key, _expect(ch, base)))
    return ("record", rec)


def _shape(var):
    if isinstance(var, V.Array):
        # every element of an open list is generated from the same description (append / set / decode): the second element
        # must have the shape of the first
        first = _shape(generate(var.item_decriptor))
        if _shape(generate(var.item_decriptor)) != first:
            return ("array", ("second element differs from the first", first))
        return ("array", first)
    if isinstance(var, V.List):
        return ("record", [(k, _shape(v)) for k, v in var.data.items()])
    return ("item", type(var).__name__)


# gaps: whitespace and comments as the documentation allows them ("comments start with # and end with the line break")
_GAPS = ["", " ", "\n", "\t ", " \r\n", "#c\n", " # <L> x >\n", "#\r", "# < MDLN\r\n ", "\n#\n#x\n"]


def documented_shape(tree: int, base: int, g0: int, g1: int, g2: int) -> bool:
    """
    pre: 0 <= tree < 11 and 0 <= base < 8
    pre: 0 <= g0 < 10 and 0 <= g1 < 10 and 0 <= g2 < 10
    post: _
    """
    node = pick(_TREES, tree)
    text = _render(node, base, [pick(_GAPS, g0), pick(_GAPS, g1), pick(_GAPS, g2)], [0])
    try:
        var = generate(text)
    except Exception:
        return False                                      # a well-formed definition was rejected
    return fin(_shape(var) == _expect(node, base))


# ---------------------------------------------------------------- rejection of broken definitions
_ALPHA = "<>L #\nMD"          # M D: letters of item names; the unit token below stands for a real item name


def _tokens(text):
    """reference tokenizer: comments stripped, split into '<', '>', words"""
    out = []
    cur = ""
    comment = False
    for c in text:
        if comment:
            if c in "\n\r":
                comment = False
            continue
        if c == "#":
            comment = True
            continue
        if c in " \t\n\r" or c in "<>":
            if cur:
                out.append(cur)
                cur = ""
            if c in "<>":
                out.append(c)
        else:
            cur += c
    if cur:
        out.append(cur)
    return out


def _first_closed(toks):
    depth = 0
    for t in toks:
        if t == "<":
            depth += 1
        elif t == ">":
            depth -= 1
            if depth == 0:
                return True
            if depth < 0:
                return False
    return False


def _names_known(toks):
    for i, t in enumerate(toks):
        if t == "<" and i + 1 < len(toks):
            n = toks[i + 1]
            if n in "<>":
                return False
            if n != "L" and getattr(DI, n, None) is None:
                return False
    return True


def short_text(idx: List[int]) -> bool:
    """
    pre: 1 <= len(idx) <= 5
    pre: all(0 <= i < 9 for i in idx)
    post: _
    """
    text = ""
    for i in idx:
        text = text + ("MDLN" if i == 8 else pick(_ALPHA, i))      # index 8 = a real item name as one unit
    try:
        generate(text)
    except Exception:
        return fin(True)
    toks = _tokens(text)
    # only the first item counts: text after its closing bracket is not read by generate() and the property does not speak
    # about it (same rule as in C15)
    depth, end = 0, len(toks)
    for i, t in enumerate(toks):
        if t == "<":
            depth += 1
        elif t == ">":
            depth -= 1
            if depth <= 0:
                end = i + 1
                break
    return fin(_first_closed(toks) and _names_known(toks[:end]))


def truncated(tree: int, base: int, cut: int, bad: bool) -> bool:
    """
    pre: 0 <= tree < 11 and 0 <= base < 8
    pre: 0 <= cut <= 120
    post: _
    """
    # bracket / name mutations of generated definitions: every proper prefix lacks a closing bracket; an item name
    # replaced by an unknown name must be rejected
    node = pick(_TREES, tree)
    text = _render(node, base, ["", " ", "\n"], [0]).strip()
    if bad:
        text = text.replace(_name(0, base), "NOSUCHITEM")
    elif cut >= len(text):
        return True
    else:
        text = text[:cut]
        if _first_closed(_tokens(text)):
            return True
    try:
        generate(text)
    except Exception:
        return fin(True)
    return False


def after_history(tree: int, base: int, g0: int, g1: int) -> bool:
    """
    pre: 0 <= tree < 11 and 0 <= base < 8
    pre: 0 <= g0 < 10 and 0 <= g1 < 10
    post: _
    """
    # reading a definition is a function of its text alone: after a well-formed definition has been read, a second text
    # that differs only in its line breaks (comments now swallow the rest of the text) is still judged on its own
    node = pick(_TREES, tree)
    t1 = _render(node, base, [pick(_GAPS, g0), "", pick(_GAPS, g1)], [0])
    try:
        generate(t1)
    except Exception:
        return False
    t2 = " ".join(t1.split())
    toks = _tokens(t2)
    ok = _first_closed(toks) and _names_known(toks)
    try:
        var = generate(t2)
    except Exception:
        return fin(not ok or toks != _tokens(t1))
    if not ok:
        return False
    return fin(toks != _tokens(t1) or _shape(var) == _shape(generate(t1)))


def _open(fid):
    import json
    import os
    path = os.path.join(os.path.dirname(os.path.dirname(os.path.abspath(__file__))), "known_findings.json")
    return any(f["id"] == fid and f["status"] == "open" for f in json.load(open(path))["findings"])


OBLIGATIONS = [
    dict(name="documented_shape", fn="documented_shape", timeout=900,
         parts={"quick": ["tree == %d and base == %d and g2 == 0" % (i, (3 * i) % 8) for i in range(11) if i != 6 or not _open("C19-named-open-list")],
                "thorough": ["tree == %d and base == %d" % (i, b) for i in range(11) for b in range(8) if i != 6 or not _open("C19-named-open-list")]},
         functions=["variables.functions.generate/_generate_from_sfdl/_generate_item_from_sfdl", "SFDLTokenizer.parse_all/_process_tokens",
                    "List._generate key derivation", "Array.__init__ naming", "generation of a second element from Array.item_decriptor"],
         bounds="11 definition trees from the documented grammar (items, open arrays, records, nesting depth <= 5, named and unnamed "
                "nested lists), item names rotated through 8 catalogue names (symbolic base), three gap choices out of 10 gap texts "
                "(whitespace incl. tab/CR/LF, comments with arbitrary content incl. brackets and item names, closed by LF or CR) at "
                "rotating positions: quick 10 trees x 100 gap pairs with one name rotation each, thorough 10 x 8 x 1000 definitions, the solver steers the choices (the tokenizer reads its input "
                "through io.StringIO, which the engine concretises per character, so symbolic characters are out of reach); "
                "shape, key order and item classes compared with a reference written from docs/firststeps/sfdl.md",
         outside="other gap texts; trees beyond the 10 shapes",
         findings=[dict(id="C19-named-open-list", pred="tree == 6")]),
    dict(name="after_history", fn="after_history", timeout=600,
         parts={"quick": ["tree == %d and base == %d" % (i, (3 * i) % 8) for i in range(11) if i != 6 or not _open("C19-named-open-list")],
                "thorough": ["tree == %d" % i for i in range(11) if i != 6 or not _open("C19-named-open-list")]},
         functions=["generate called twice in one process (no state may leak between definitions)"],
         bounds="10 trees x 8 name rotations x 100 gap pairs: the definition, then the same text with every line break turned into a "
                "space; the second reading must agree with the reference tokenizer's verdict on that text alone"),
    dict(name="short_text", fn="short_text", timeout=900,
         parts={"quick": ["len(idx) <= 3"] + ["len(idx) == 4 and idx[0] == %d" % i for i in range(9)],
                "thorough": ["len(idx) <= 3"] + ["len(idx) == 4 and idx[0] == %d" % i for i in range(9)]
                + ["len(idx) == 5 and idx[0] == 0 and idx[1] == %d" % i for i in range(9)]},
         functions=["SFDLTokenizer", "generate"],
         bounds="every text of 1..4 (thorough: 5 starting with '<') symbols over < > L space # newline M D and the unit token MDLN: "
                "accepted only if the reference tokenizer sees the first item closed and only known names",
         outside="longer texts"),
    dict(name="truncated", fn="truncated", timeout=600, parts=["tree == %d" % i for i in range(11)],
         functions=["generate on truncated / renamed definitions"],
         bounds="every proper prefix of the 10 rendered definitions (8 name rotations) and an unknown item name substituted"),
]
