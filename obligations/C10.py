"""C10: whenever the TCP transport reports success, every byte of that send reached the socket once and in order."""
from typing import List
import logging
import queue

from engine.chx import fin
from rigs.sock import FakeSock, always_writable
import secsgem.common.tcp_connection as tc
from secsgem.common.tcp_connection import TcpConnection
from secsgem.common.block_send_info import BlockSendInfo, BlockSendResult
from secsgem.hsms.protocol import HsmsProtocol

tc.format_hex = lambda data: ""          # log formatting stub (formatting is not the subject; it realises every byte)
tc.select.select = always_writable          # environment stub (module attribute of the harness process)


class _Conn(TcpConnection):
    def enable(self):
        pass

    def disable(self):
        pass


def _conn(script):
    c = _Conn.__new__(_Conn)
    c._sock = FakeSock(script)
    c._bytestream_logger = logging.getLogger("x")
    c._logger = logging.getLogger("x")
    c.select_timeout = 0
    return c


PARTIAL = "any(0 < s < len(data) for s in script)"


def send_data_contract(data: bytes, script: List[int]) -> bool:
    """
    pre: 1 <= len(data) <= 6
    pre: len(script) <= 4
    pre: all(-2 <= s <= 6 for s in script)
    post: _
    """
    c = _conn(script)
    ok = c.send_data(data)
    hard_error = c._sock.hard_error
    if ok:
        # success => the socket accepted exactly the bytes of this send, once, in order
        return fin(c._sock.wire == data)
    # failure may only be reported when the socket really failed (never for a mere partial write / EWOULDBLOCK)
    return fin(hard_error)


class _P:
    """just the attributes HsmsProtocol._process_send_queue touches (state constructed directly)"""
    _process_send_queue = HsmsProtocol._process_send_queue


def send_queue_packets(d1: bytes, d2: bytes, script: List[int], psize: int) -> bool:
    """
    pre: 1 <= len(d1) <= 4 and 0 <= len(d2) <= 2
    pre: 1 <= psize <= 3
    pre: len(script) <= 3
    pre: all(-2 <= s <= 4 for s in script)
    post: _
    """
    p = _P()
    p._send_queue = queue.Queue()
    p.send_packet_size = psize          # instance attribute instead of 1 MiB: same code, reachable packet boundaries
    p._connection = _conn(script)
    infos = [BlockSendInfo(d1)]
    if len(d2) > 0:
        infos.append(BlockSendInfo(d2))
    for i in infos:
        p._send_queue.put(i)
    p._process_send_queue()
    wire = p._connection._sock.wire
    want = b""
    for i in infos:
        if i._result == BlockSendResult.SENT_OK:
            want = want + i.data
        elif i._result == BlockSendResult.SENT_ERROR:
            # a failed block may have put a prefix of itself on the wire; nothing after it may be sent in this run
            return fin(wire[:len(want)] == want and len(wire) <= len(want) + len(i.data)
                       and wire[len(want):] == i.data[:len(wire) - len(want)])
        else:
            return fin(False)   # block neither resolved True nor False
    return fin(wire == want)


OBLIGATIONS = [
    dict(name="send_data_contract", fn="send_data_contract", timeout=300,
         functions=["secsgem.common.tcp_connection.TcpConnection.send_data"],
         bounds="data 1..6 symbolic bytes; every script of <= 4 send() outcomes (accept n bytes / EWOULDBLOCK / EPIPE), then a draining peer",
         outside="kernel behaviour beyond the documented send()/select() contract; messages longer than 6 bytes (the loop is size-independent)",
         findings=[dict(id="C10-partial-send", pred=PARTIAL)]),
    dict(name="send_queue_packets", fn="send_queue_packets", timeout=400,
         parts={"quick": ["psize == %d and len(script) <= 2 and len(d1) <= 3" % i for i in (1, 2, 3)],
                "thorough": ["psize == %d and len(script) == %d" % (i, j) for i in (1, 2, 3) for j in (0, 1, 2, 3)]},
         functions=["secsgem.hsms.protocol.HsmsProtocol._process_send_queue", "BlockSendInfo.resolve", "TcpConnection.send_data"],
         bounds="two queued blocks (quick: <= 3 and <= 2 bytes, scripts <= 2; thorough: <= 4 and <= 2, scripts <= 3), packet size 1..3 "
                "(instance attribute instead of 1 MiB: same code, reachable packet boundaries)",
         outside="longer blocks / scripts",
         findings=[dict(id="C10-partial-send", pred="any(0 < s < 4 for s in script)")]),
]
ASSUMPTIONS = ["socket.send contract as in rigs/sock.py; select() reports writable whenever asked"]
