"""C10: whenever the TCP transport reports success, every byte of that send reached the socket once and in order."""
from typing import List
import logging
import queue

from engine.chx import fin
from rigs.sock import FakeSock, always_writable
import secsgem.common.tcp_connection as tc
from secsgem.common.tcp_connection import TcpConnection
from secsgem.common.block_send_info import BlockSendInfo, BlockSendResult
from secsgem.hsms.protocol import HsmsProtocol

tc.format_hex = lambda data: ""          # log formatting stub (formatting is not the subject; it realises every byte)
tc.select.select = always_writable          # environment stub (module attribute of the harness process)


class _Conn(TcpConnection):
    def enable(self):
        pass

    def disable(self):
        pass


def _conn(script):
    import secsgem.hsms
    c = _Conn(secsgem.hsms.HsmsSettings())            # a real TcpConnection object; only its socket is the contract stub
    c._sock = FakeSock(script)
    c.select_timeout = 0
    return c


PARTIAL = "any(0 < s < len(data) for s in script)"


def send_data_contract(data: bytes, script: List[int]) -> bool:
    """
    pre: 1 <= len(data) <= 8
    pre: len(script) <= 5
    pre: all(-3 <= s <= 8 for s in script)
    post: _
    """
    c = _conn(script)
    try:
        ok = c.send_data(data)
    except (ValueError, OSError):
        ok = False                      # an exception out of send_data (socket closed under the sender) is not a success report
    hard_error = c._sock.hard_error
    if ok:
        # success => the socket accepted exactly the bytes of this send, once, in order
        return fin(c._sock.wire == data)
    # failure may only be reported when the socket really failed (never for a mere partial write / EWOULDBLOCK)
    return fin(hard_error)



def send_queue_packets(d1: bytes, d2: bytes, script: List[int], psize: int) -> bool:
    """
    pre: 1 <= len(d1) <= 4 and 0 <= len(d2) <= 2
    pre: 1 <= psize <= 3
    pre: len(script) <= 3
    pre: all(-2 <= s <= 4 for s in script)
    post: _
    """
    from rigs import hsms as hrig
    p, fake, delivered = hrig.make_protocol()          # a real HsmsProtocol; only its connection is the socket-contract stub
    p.send_packet_size = psize          # instance attribute instead of 1 MiB: same code, reachable packet boundaries
    p._Protocol__connection = _conn(script)
    infos = [BlockSendInfo(d1)]
    if len(d2) > 0:
        infos.append(BlockSendInfo(d2))
    for i in infos:
        p._send_queue.put(i)
    p._process_send_queue()
    wire = p._connection._sock.wire
    want = b""
    for i in infos:
        if i._result == BlockSendResult.SENT_OK:
            want = want + i.data
        elif i._result == BlockSendResult.SENT_ERROR:
            # a failed block may have put a prefix of itself on the wire; nothing after it may be sent in this run
            return fin(wire[:len(want)] == want and len(wire) <= len(want) + len(i.data)
                       and wire[len(want):] == i.data[:len(wire) - len(want)])
        else:
            return fin(False)   # block neither resolved True nor False
    return fin(wire == want)


class _StalledEvent:
    """threading.Event of a block whose sender makes no progress: wait() without timeout blocks (Park), with a timeout it expires"""

    def __init__(self):
        self.flag = False

    def set(self):
        self.flag = True

    def is_set(self):
        return self.flag

    def wait(self, timeout=None):
        if self.flag:
            return True
        if timeout is None:
            raise _Blocked()
        return False


class _Blocked(Exception):
    pass


def stalled_sender(data: bytes, fails_later: bool) -> bool:
    """
    pre: 1 <= len(data) <= 4
    post: _
    """
    # the protocol thread does not get to the block (peer not draining): whatever send_message does - wait on, give up - it must
    # not report success for bytes that never reached the socket
    import secsgem.common.block_send_info as bsi
    from secsgem.common.protocol import Protocol
    from rigs import hsms as hrig
    p, c, delivered = hrig.make_protocol()
    p._thread.trigger_receiver = lambda: None              # sender stalled
    real_init = bsi.BlockSendInfo.__init__

    def init(self, d):
        real_init(self, d)
        self._result_trigger = _StalledEvent()
    bsi.BlockSendInfo.__init__ = init
    try:
        from secsgem.hsms.message import HsmsMessage
        from secsgem.hsms.header import HsmsHeader, HsmsSType
        msg = HsmsMessage(HsmsHeader(1, 0, 1, 1, False, 0, HsmsSType.DATA_MESSAGE), data)
        try:
            ok = p.send_message(msg)
        except _Blocked:
            return fin(True)                                 # still waiting for the transport: no success reported
    finally:
        bsi.BlockSendInfo.__init__ = real_init
    return fin(ok is not True and c.wire == [])


OBLIGATIONS = [
    dict(name="send_data_contract", fn="send_data_contract", timeout=600,
         parts={"quick": ["len(data) <= 6 and len(script) <= 4 and all(s <= 6 for s in script)"],
                "thorough": ["len(script) == %d and len(data) <= 4" % k for k in range(6)]
                + ["len(script) == %d and len(data) == %d" % (k, n) for k in range(6) for n in (5, 6, 7, 8)]},
         functions=["secsgem.common.tcp_connection.TcpConnection.send_data"],
         bounds="quick: data 1..6 symbolic bytes, every script of <= 4 send() outcomes (accept n bytes / EWOULDBLOCK / EPIPE / one byte and then closed locally: select raises ValueError, send EBADF), then a "
                "draining peer; thorough: data 1..8, scripts <= 5",
         outside="kernel behaviour beyond the documented send()/select() contract; messages longer than 8 bytes (the loop is size-independent)",
         findings=[dict(id="C10-partial-send", pred=PARTIAL)]),
    dict(name="send_queue_packets", fn="send_queue_packets", timeout=400,
         parts={"quick": ["psize == %d and len(script) <= 2 and len(d1) <= 3" % i for i in (1, 2, 3)],
                "thorough": ["psize == %d and len(script) == %d" % (i, j) for i in (1, 2, 3) for j in (0, 1, 2, 3)]},
         functions=["secsgem.hsms.protocol.HsmsProtocol._process_send_queue", "BlockSendInfo.resolve", "TcpConnection.send_data"],
         bounds="two queued blocks (quick: <= 3 and <= 2 bytes, scripts <= 2; thorough: <= 4 and <= 2, scripts <= 3), packet size 1..3 "
                "(instance attribute instead of 1 MiB: same code, reachable packet boundaries)",
         outside="longer blocks / scripts",
         findings=[dict(id="C10-partial-send", pred="any(0 < s < 4 for s in script)")]),
]
OBLIGATIONS.append(
    dict(name="stalled_sender", fn="stalled_sender", timeout=120,
         functions=["Protocol.send_message", "BlockSendInfo.wait/resolve"],
         bounds="a block the sender never gets to (event never set): send_message blocks or reports failure, never success"))
ASSUMPTIONS = ["socket.send contract as in rigs/sock.py; select() reports writable whenever asked"]
