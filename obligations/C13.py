"""C13: status variables, equipment constants and alarms answer as a reference model predicts (steps on the real handler)."""
from typing import List

from crosshair.simplestructs import SimpleDict

from engine.chx import fin, pick
from rigs import gem as rig
from secsgem.gem.status_variable import StatusVariable
from secsgem.gem.equipment_constant import EquipmentConstant
from secsgem.gem.alarm import Alarm
from secsgem.gem.collection_event import CollectionEvent
from secsgem.secs import functions as F
from secsgem.secs import variables as V


def _by(i, a, va, vb):
    """value associated with id i (a -> va, anything else -> vb) without hashing a symbolic key"""
    return va if i == a else vb


def _req_ids(sel, known, unknown):
    """request id list from selector digits: 0 -> first known id, 1 -> second known id, 2 -> an unknown id"""
    return [pick([known[0], known[1], unknown], s) for s in sel]


# ---------------------------------------------------------------- status variables
def sv_step(a: int, b: int, x: int, va: int, vb: int, sel: List[int], names: bool) -> bool:
    """
    pre: 0 <= a < 256 and 0 <= b < 256 and 0 <= x < 256 and a != b and x != a and x != b
    pre: 0 <= va < 2**32 and 0 <= vb < 2**16
    pre: len(sel) <= 4 and all(0 <= s <= 2 for s in sel)
    post: _
    """
    h, p = rig.make_equipment()
    svs = SimpleDict([])
    svs[a] = StatusVariable(a, "svA", "mm", V.U4, False)
    svs[a].value = va
    svs[b] = StatusVariable(b, "svB", "kg", V.U2, False)
    svs[b].value = vb
    h._StatusDataCollectionCapability__status_variables = svs            # only the user variables (CLOCK is time dependent)
    ids = _req_ids(sel, (a, b), x)
    try:
        if names:
            got = h._on_s01f11(h, rig.msg(F.SecsS01F11(ids))).get()
        else:
            got = h._on_s01f03(h, rig.msg(F.SecsS01F03(ids))).get()
    except Exception:
        return False
    order = ids if ids else [a, b]                       # an empty request asks for all, in table order
    if names:
        want = [{"SVID": i, "SVNAME": "" if i == x else _by(i, a, "svA", "svB"), "UNITS": "" if i == x else _by(i, a, "mm", "kg")}
                for i in order]
    else:
        want = [[] if i == x else _by(i, a, va, vb) for i in order]
    return fin(got == want)


# ---------------------------------------------------------------- equipment constants
def _ec_handler(a, b, lo_a, hi_a, va, vb):
    h, p = rig.make_equipment()
    ecs = SimpleDict([])
    ecs[a] = EquipmentConstant(a, "ecA", lo_a, hi_a, lo_a, "mm", V.I4, False)
    ecs[a].value = va
    ecs[b] = EquipmentConstant(b, "ecB", None, None, 0, "s", V.U2, False)
    ecs[b].value = vb
    h._equipment_constants = ecs
    return h, p


def ec_read_step(a: int, b: int, x: int, lo_a: int, hi_a: int, va: int, vb: int, sel: List[int], names: bool) -> bool:
    """
    pre: 3 <= a < 256 and 3 <= b < 256 and 3 <= x < 256 and a != b and x != a and x != b
    pre: -1000 <= lo_a <= va <= hi_a <= 1000 and 0 <= vb < 2**16
    pre: len(sel) <= 4 and all(0 <= s <= 2 for s in sel)
    post: _
    """
    h, p = _ec_handler(a, b, lo_a, hi_a, va, vb)
    ids = _req_ids(sel, (a, b), x)
    try:
        if names:
            got = h._on_s02f29(h, rig.msg(F.SecsS02F29(ids))).get()
        else:
            got = h._on_s02f13(h, rig.msg(F.SecsS02F13(ids))).get()
    except Exception:
        return False
    order = ids if ids else [a, b]
    if names:
        fa = {"ECID": a, "ECNAME": "ecA", "ECMIN": lo_a, "ECMAX": hi_a, "ECDEF": lo_a, "UNITS": "mm"}
        fb = {"ECID": b, "ECNAME": "ecB", "ECMIN": "", "ECMAX": "", "ECDEF": 0, "UNITS": "s"}
        want = [{"ECID": x, "ECNAME": "", "ECMIN": "", "ECMAX": "", "ECDEF": "", "UNITS": ""} if i == x else _by(i, a, fa, fb)
                for i in order]
    else:
        want = [[] if i == x else _by(i, a, va, vb) for i in order]
    return fin(got == want)


def ec_set_step(a: int, b: int, x: int, lo_a: int, hi_a: int, va: int, vb: int, sel: List[int], n1: int, n2: int, n3: int) -> bool:
    """
    pre: 3 <= a < 256 and 3 <= b < 256 and 3 <= x < 256 and a != b and x != a and x != b
    pre: -1000 <= lo_a <= va <= hi_a <= 1000 and 0 <= vb < 2**16
    pre: 1 <= len(sel) <= 4 and all(0 <= s <= 2 for s in sel)
    pre: -1002 <= n1 <= 1002 and 0 <= n2 < 2**16 and -1002 <= n3 <= 1002
    post: _
    """
    h, p = _ec_handler(a, b, lo_a, hi_a, va, vb)
    ids = _req_ids(sel, (a, b), x)
    news = [n1, n2, n3]
    # value offered for the i-th entry: in the value domain of its constant (ecB is unsigned 16 bit)
    entries = [{"ECID": i, "ECV": (news[k % 3] if i != b else n2)} for k, i in enumerate(ids)]
    try:
        ack = h._on_s02f15(h, rig.msg(F.SecsS02F15(entries))).get()
    except Exception:
        return False
    bad = False
    for e in entries:
        if e["ECID"] == x:
            bad = True
        elif e["ECID"] == a and not lo_a <= e["ECV"] <= hi_a:
            bad = True
    now_a, now_b = h._equipment_constants[a].value, h._equipment_constants[b].value
    if bad:
        # refused: non-zero EAC, no constant changed
        return fin(ack != 0 and now_a == va and now_b == vb)
    want_a, want_b = va, vb
    for e in entries:                                   # all applied, later entries win
        if e["ECID"] == a:
            want_a = e["ECV"]
        else:
            want_b = e["ECV"]
    return fin(ack == 0 and now_a == want_a and now_b == want_b and lo_a <= now_a <= hi_a)


def ec_float_guard():
    """float ECV at the guard (E1 models floats as reals: NaN / infinities / boundaries concretely + the guard as z3 FP)"""
    import math
    import z3
    from engine import fp
    from secsgem.gem.equipment_constants_capability import EquipmentConstantsCapability
    cases = 0
    for bad in (math.nan, math.inf, -math.inf, 10.000001, 0.9999999):
        h, p = rig.make_equipment(symbolic=False)
        h._equipment_constants[50] = EquipmentConstant(50, "f", 1.0, 10.0, 5.0, "", V.F8, False)
        h._equipment_constants[51] = EquipmentConstant(51, "g", 0, 9, 3, "", V.U1, False)
        try:
            ack = h._on_s02f15(h, rig.msg(F.SecsS02F15([{"ECID": 51, "ECV": V.U1(7)}, {"ECID": 50, "ECV": V.F8(bad)}]))).get()
        except Exception as e:
            ack = "raised " + repr(e)
        cases += 1
        v50, v51 = h._equipment_constants[50].value, h._equipment_constants[51].value
        if ack == 0 or v51 != 3 or not (1.0 <= v50 <= 10.0):
            return {"state": "refuted", "reproduced": True,
                    "cex": {"ECV": repr(bad), "ack": ack, "ec50": repr(v50), "ec51": v51},
                    "detail": "S2F15 applied a constant although another value of the request is outside its declared range"}
    # the guard as z3 FP: exists a double that passes both comparisons but is not inside [min, max] ?
    x = z3.FP("x", fp.F64)
    lo, hi = z3.FPVal(1.0, fp.F64), z3.FPVal(10.0, fp.F64)
    import ast, inspect, textwrap
    src = textwrap.dedent(inspect.getsource(EquipmentConstantsCapability._on_s02f15))
    tests = [n.test for n in ast.walk(ast.parse(src)) if isinstance(n, ast.If) and "min_value" in ast.unparse(n.test) + "" or
             isinstance(n, ast.If) and "max_value" in ast.unparse(n.test)]
    env = {"equipment_constant.ECV.get()": x, "constant.min_value": lo, "constant.max_value": hi}

    def tr(node):
        if isinstance(node, ast.BoolOp):
            vals = [tr(v) for v in node.values]
            vals = [v for v in vals if v is not None]
            return z3.And(*vals) if isinstance(node.op, ast.And) else z3.Or(*vals)
        if isinstance(node, ast.UnaryOp) and isinstance(node.op, ast.Not):
            return z3.Not(tr(node.operand))
        if isinstance(node, ast.Compare):
            txt = ast.unparse(node)
            if "is not None" in txt:
                return None                                 # the bound is declared in this query
            l, r = env[ast.unparse(node.left)], env[ast.unparse(node.comparators[0])]
            op = node.ops[0]
            return {ast.Lt: z3.fpLT, ast.Gt: z3.fpGT, ast.LtE: z3.fpLEQ, ast.GtE: z3.fpGEQ}[type(op)](l, r)
        raise fp.Untranslatable(ast.unparse(node))
    rejects = z3.Or(*[tr(t) for t in tests])
    S = fp.Session()
    r, m = S.check("ECV passes the S2F15 range guard but is outside [min,max]", z3.Not(rejects),
                   z3.Not(z3.And(z3.fpLEQ(lo, x), z3.fpLEQ(x, hi))))
    if r == "sat":
        val, _ = fp.fp_to_py(m, x, 64)
        return {"state": "refuted", "reproduced": True, "cex": {"ECV": repr(val)}, "detail": "guard accepts a value outside the range"}
    if r != "unsat":
        return {"state": "unknown"}
    return {"state": "confirmed", "paths": cases + 1, "solver_calls": S.calls, "solver_s": round(S.time, 3), "extra": S.log}


# ---------------------------------------------------------------- alarms
def _alarm_handler(a, b, en_a, en_b, set_a, set_b):
    h, p = rig.make_equipment()
    al = SimpleDict([])
    al[a] = Alarm(a, "alA", "text A", 2, 100, 101)
    al[a].enabled, al[a].set = en_a, set_a
    al[b] = Alarm(b, "alB", "text B", 5, 102, 103)
    al[b].enabled, al[b].set = en_b, set_b
    h._AlarmCapability__alarms = al
    for ce in (100, 101, 102, 103):
        h._collection_events[ce] = CollectionEvent(ce, "ce", [])
    return h, p


def alarm_list_step(a: int, b: int, en_a: bool, en_b: bool, set_a: bool, set_b: bool, sel: List[int], enabled_only: bool) -> bool:
    """
    pre: 0 <= a < 256 and 0 <= b < 256 and a != b
    pre: len(sel) <= 4 and all(0 <= s <= 1 for s in sel)
    post: _
    """
    h, p = _alarm_handler(a, b, en_a, en_b, set_a, set_b)
    ids = [pick([a, b], s) for s in sel]
    try:
        if enabled_only:
            got = h._on_s05f07(h, rig.msg(F.SecsS05F07())).get()
        else:
            got = h._on_s05f05(h, rig.msg(F.SecsS05F05(ids))).get()
    except Exception:
        return False
    ra = {"ALCD": 2 + (128 if set_a else 0), "ALID": a, "ALTX": "text A"}
    rb = {"ALCD": 5 + (128 if set_b else 0), "ALID": b, "ALTX": "text B"}
    if enabled_only:
        want = ([ra] if en_a else []) + ([rb] if en_b else [])
    else:
        want = [_by(i, a, ra, rb) for i in (ids if ids else [a, b])]
    return fin(got == want)


def alarm_change_step(a: int, b: int, x: int, en_a: bool, en_b: bool, set_a: bool, set_b: bool, op: int, which: int,
                      aled: int) -> bool:
    """
    pre: 0 <= a < 256 and 0 <= b < 256 and 0 <= x < 256 and a != b and x != a and x != b
    pre: 0 <= op <= 2 and 0 <= which <= 2 and (aled == 0 or aled == 128)
    post: _
    """
    h, p = _alarm_handler(a, b, en_a, en_b, set_a, set_b)
    alid = pick([a, b, x], which)
    raised = False
    ack = None
    try:
        if op == 0:
            h.set_alarm(alid)
        elif op == 1:
            h.clear_alarm(alid)
        else:
            ack = h._on_s05f03(h, rig.msg(F.SecsS05F03({"ALED": aled, "ALID": alid}))).get()
    except ValueError:
        raised = True
    reports = [f.get() for kind, f, _ in p.sent if f.stream == 5 and f.function == 1]
    al = h._AlarmCapability__alarms
    if alid == x:
        # unknown alarm: refused (error / non-zero ACKC5), nothing sent, nothing changed
        if op == 2 and (ack == 0 or raised):
            return False
        if op != 2 and not raised:
            return False
        return fin(reports == [] and [al[a].enabled, al[a].set, al[b].enabled, al[b].set] == [en_a, set_a, en_b, set_b])
    if raised:
        return False
    en, was = _by(alid, a, (en_a, set_a), (en_b, set_b))
    other = b if alid == a else a
    if [al[other].enabled, al[other].set] != list(_by(other, a, (en_a, set_a), (en_b, set_b))):
        return False
    if op == 2:
        return fin(ack == 0 and reports == [] and al[alid].enabled == (aled >= 128) and al[alid].set == was)
    now = op == 0
    code = 2 if alid == a else 5
    text = "text A" if alid == a else "text B"
    if al[alid].set != now or al[alid].enabled != en:
        return False
    if en and was != now:
        # exactly one S5F1 for the set/clear change of an alarm that is enabled at that moment
        return fin(reports == [{"ALCD": code + (128 if now else 0), "ALID": alid, "ALTX": text}])
    return fin(reports == [])


OBLIGATIONS = [
    dict(name="sv_step", fn="sv_step", timeout=600,
         parts={"quick": ["names and len(sel) <= 3", "not names and len(sel) <= 3"],
                "thorough": ["names and len(sel) <= 3", "not names and len(sel) <= 3", "names and len(sel) == 4", "not names and len(sel) == 4"]},
         functions=["StatusDataCollectionCapability._on_s01f03/_on_s01f11/_get_sv_value"],
         bounds="two user status variables with symbolic 8-bit ids and symbolic values, request lists of 0..3 (thorough 0..4) ids chosen among the two "
                "known ids and a symbolic unknown id (repeats, any order); reply == requested items in request order, empty item for "
                "unknown ids; empty request = all in table order",
         outside="text ids; built-in CLOCK (time dependent); > 4 ids"),
    dict(name="ec_read_step", fn="ec_read_step", timeout=600,
         parts={"quick": ["names and len(sel) <= 3", "not names and len(sel) <= 3"],
                "thorough": ["names and len(sel) <= 3", "not names and len(sel) <= 3", "names and len(sel) == 4", "not names and len(sel) == 4"]},
         functions=["EquipmentConstantsCapability._on_s02f13/_on_s02f29/_get_ec_value"],
         bounds="two user constants (symbolic ids, min/max/value), request lists as for sv_step"),
    dict(name="ec_set_step", fn="ec_set_step", timeout=900,
         parts={"quick": ["len(sel) == 1", "len(sel) == 2", "len(sel) == 3"],
                "thorough": ["len(sel) == 1", "len(sel) == 2", "len(sel) == 3"] + ["len(sel) == 4 and sel[0] == %d" % k for k in range(3)]},
         functions=["EquipmentConstantsCapability._on_s02f15/_set_ec_value"],
         bounds="S2F15 with 1..3 (thorough 1..4) entries over {ecA with symbolic min/max, ecB unbounded, unknown id}, symbolic new values around and "
                "beyond the limits: all applied or none, never outside [min, max], EAC class",
         outside="> 4 entries; float arithmetic (ec_float_guard)"),
    dict(name="ec_float_guard", fn="ec_float_guard", kind="native", timeout=120,
         functions=["_on_s02f15 range guard (AST -> z3 FP) + concrete NaN/inf/boundary requests"],
         bounds="every double against the guard expression; 5 concrete two-entry requests",
         findings=[dict(id="C13-nan-ecv", pred="True")]),
    dict(name="alarm_list_step", fn="alarm_list_step", timeout=600,
         parts={"quick": ["enabled_only and len(sel) == 0", "not enabled_only and len(sel) <= 3"],
                "thorough": ["enabled_only and len(sel) == 0", "not enabled_only and len(sel) <= 3", "not enabled_only and len(sel) == 4"]},
         functions=["AlarmCapability._on_s05f05/_on_s05f07"],
         bounds="two alarms (symbolic ids, enabled/set flags), S5F5 lists of 0..3 (thorough 0..4) known ids (repeats, any order), S5F7",
         outside="S5F5 with unknown ids (the property promises only the requested existing alarms)"),
    dict(name="alarm_change_step", fn="alarm_change_step", timeout=600, parts=["op == 0", "op == 1", "op == 2"],
         functions=["AlarmCapability.set_alarm/clear_alarm/_on_s05f03"],
         bounds="set / clear / S5F3 (ALED 0x00 and 0x80) on known and unknown alarm ids from every enabled/set combination: S5F1 exactly "
                "for state changes of alarms enabled at that moment"),
]
ASSUMPTIONS = ["tables replaced by SimpleDicts holding only the user entries", "requests are structured function objects (codec = C03)"]
