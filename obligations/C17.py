"""C17: the SECS-I line protocol delivers accepted messages intact and once, and NAKs bad blocks (single-direction transfers
against a reactive peer that supplies its bytes exactly when the endpoint blocks)."""
from typing import List

from crosshair.simplestructs import SimpleDict

from engine.chx import fin, pick
from oracles import refe4
from rigs.park import Park
from rigs.hsms import FakeConn
import secsgem.common
from secsgem.common.protocol import Protocol
from secsgem.secsi.protocol import SecsIProtocol
from secsgem.secsi.settings import SecsISettings
from secsgem.secsi.header import SecsIHeader
from secsgem.secsi.message import SecsIMessage, SecsIBlock

ENQ, EOT, ACK, NAK = 5, 4, 6, 21


class ReactiveCondition:
    """ByteQueue condition whose wait_for asks the peer model for its next bytes when the endpoint would block"""

    def __init__(self, supply):
        self.supply = supply

    def __enter__(self):
        return self

    def __exit__(self, *a):
        return False

    def notify_all(self):
        pass

    def wait_for(self, pred, timeout=None):
        for _ in range(64):
            if pred():
                return True
            if not self.supply():
                raise Park("SECS-I line: both sides wait")
        raise Park("SECS-I line: no progress")


def _endpoint(host):
    s = SecsISettings(port="RIG", device_type=secsgem.common.DeviceType.HOST if host else secsgem.common.DeviceType.EQUIPMENT)
    p = SecsIProtocol.__new__(SecsIProtocol)
    Protocol.__init__(p, s)
    c = FakeConn(s)
    p._Protocol__connection = c
    p._response_queues = SimpleDict([])
    p._incomplete_messages = SimpleDict([])
    delivered = []
    p.events.message_received += lambda d: delivered.append(d["message"])
    p._thread.queue_block = lambda source, block: p._dispatch_block(source, block)
    p._thread.trigger_receiver = lambda: p._process_send_queue()
    return p, c, delivered


def send_direction(host: bool, tail: bytes, nblocks: int, nak_at: int, system: int, w: bool, exact: bool) -> bool:
    """
    pre: len(tail) <= 2
    pre: 1 <= nblocks <= 2 and -1 <= nak_at <= 1
    pre: 0 <= system < 2**32
    post: _
    """
    # the endpoint sends a message of nblocks blocks (body = 244*(nblocks-1) pattern bytes + symbolic tail); the peer is a
    # correct E4 receiver: EOT after ENQ, then ACK for a block with correct checksum - or NAK for block number nak_at
    # (a line error on its side)
    p, c, delivered = _endpoint(host)
    if exact:
        body = b"\x33" * (244 * nblocks)              # exact multiples of the block size: 244 and 488 bytes
    else:
        body = b"\x33" * (244 * (nblocks - 1)) + (b"\x55" if nblocks > 1 else b"") + tail
    msg = SecsIMessage(SecsIHeader(system, 1, 1, 1, 0, not host, w, True), body)
    line = []                                       # bytes in both directions in line order: ("tx"|"rx", bytes)
    peer = {"got_blocks": [], "state": "idle"}

    def on_send(data):
        line.append(("tx", bytes(data)))
        return True
    c.send_data = on_send

    def supply():
        # called when the endpoint blocks: what does the peer answer to the bytes it has seen so far?
        last = line[-1] if line else None
        if last is None or last[0] != "tx":
            return False
        if last[1] == bytes([ENQ]):
            p._receive_buffer.append(bytes([EOT]))
            line.append(("rx", bytes([EOT])))
            return True
        blk = list(last[1])
        good = blk == refe4.block(blk[1:11], blk[11:-2]) if len(blk) >= 13 else False
        k = len(peer["got_blocks"])
        if good and k != nak_at:
            peer["got_blocks"].append(blk)
            p._receive_buffer.append(bytes([ACK]))
            line.append(("rx", bytes([ACK])))
        else:
            p._receive_buffer.append(bytes([NAK]))
            line.append(("rx", bytes([NAK])))
        return True
    p._receive_buffer._buffer_lock = ReactiveCondition(supply)
    try:
        ok = p.send_message(msg)
    except Park:
        return False
    # line discipline: ENQ, EOT, block, ACK/NAK per block, nothing else
    expect_blocks = nblocks if (nak_at < 0 or nak_at >= nblocks) else nak_at + 1
    if len(line) != 4 * expect_blocks:
        return False
    for i in range(expect_blocks):
        a, b, cc, d = line[4 * i: 4 * i + 4]
        if a != ("tx", bytes([ENQ])) or b != ("rx", bytes([EOT])) or cc[0] != "tx" or d[0] != "rx":
            return False
    want_ok = nak_at < 0 or nak_at >= nblocks
    if ok != want_ok:
        return False                                # success reported although a block was NAKed (or the reverse)
    if not want_ok:
        return fin(True)
    # the peer reassembles exactly the message
    data = []
    for i, blk in enumerate(peer["got_blocks"]):
        f = refe4.fields(blk[1:11])
        if f["block"] != i + 1 or f["last_block"] != (i == nblocks - 1) or f["system"] != system or f["require_response"] != w:
            return False
        data += blk[11:-2]
    return fin(bytes(data) == body)


def receive_direction(host: bool, hb: bytes, tail: bytes, chunks: List[int], cpos: int, cval: int) -> bool:
    """
    pre: len(hb) == 10 and hb[4] >= 128 and hb[5] == 1 and hb[4] % 128 == 0
    pre: len(tail) <= 2
    pre: len(chunks) <= 2 and all(1 <= x <= 15 for x in chunks)
    pre: -1 <= cpos <= 14 and 0 <= cval < 256
    post: _
    """
    # the peer sends one single-block message (E-bit set, block number 1): ENQ, waits for EOT, then the block in chunks
    # of symbolic sizes; optionally one byte (position cpos >= 1: header, data or checksum byte) is corrupted on the line
    p, c, delivered = _endpoint(host)
    data = tail
    good = refe4.block(list(hb), list(data))
    wire_block = list(good)
    corrupted = False
    if cpos >= 1:
        idx = cpos if cpos <= 10 else len(wire_block) - (15 - cpos)          # 11..14 -> the last four bytes (data tail + checksum)
        if 1 <= idx < len(wire_block) and wire_block[idx] != cval:
            wire_block[idx] = cval
            corrupted = True
    sent = []
    c.send_data = lambda d: sent.append(bytes(d)) or True
    st = {"pos": 0, "k": 0}

    def supply():
        if not sent or sent[0] != bytes([EOT]):
            return False                            # the peer starts the block only after EOT
        if st["pos"] >= len(wire_block):
            return False
        n = chunks[st["k"]] if st["k"] < len(chunks) else len(wire_block)
        st["k"] += 1
        part = wire_block[st["pos"]: st["pos"] + n]
        st["pos"] += len(part)
        p._receive_buffer.append(bytes(part))
        return True
    p._receive_buffer._buffer_lock = ReactiveCondition(supply)
    p._receive_buffer.append(bytes([ENQ]))
    try:
        p._process_received_data()
    except Park:
        return False
    except Exception:
        return False
    if corrupted:
        return fin(sent == [bytes([EOT]), bytes([NAK])] and delivered == [])
    if sent != [bytes([EOT]), bytes([ACK])] or len(delivered) != 1:
        return False
    m = delivered[0]
    f = refe4.fields(list(hb))
    return fin(m.data == data and m.header.system == f["system"] and m.header.stream == f["stream"]
               and m.header.function == f["function"] and m.header.require_response == f["require_response"]
               and m.header.device_id == f["device_id"] and len(p._receive_buffer) == 0)


_HA = "hb[2] == 129 and hb[3] == 1 and hb[6] == 1 and hb[7] == 2 and hb[8] == 3 and hb[9] == 4"
_HB = "hb[0] == 129 and hb[1] == 2 and hb[2] == 131 and hb[3] == 4"

OBLIGATIONS = [
    dict(name="send_direction", fn="send_direction", timeout=600, parts=["nblocks == 1", "nblocks == 2"],
         functions=["Protocol.send_message", "SecsIProtocol._process_send_queue", "SecsIMessage block splitting", "BlockSendInfo"],
         bounds="host and equipment; 1 and 2 block messages (body 0..2 / 245..247 bytes with a symbolic tail, and exactly 244 / 488 bytes), arbitrary system bytes; the "
                "peer ACKs every block or NAKs block 0 / 1: line order ENQ, EOT, block, ACK per block; success iff every block was ACKed; "
                "the peer reassembles the identical message",
         outside="contention (both sides ENQ), T1-T4 timeouts and retries, more than 2 blocks"),
    dict(name="receive_direction", fn="receive_direction", timeout={"quick": 450, "thorough": 2400},
         parts={"quick": ["len(chunks) <= 1 and " + c + " and " + _HA
                          for c in ["cpos == -1"] + ["cpos == %d" % k for k in range(1, 15)]]
                         + ["len(chunks) == 2 and chunks[0] == %d and cpos == -1 and %s" % (k, _HA) for k in (1, 2, 11, 12)],
                "thorough": ["len(chunks) <= 1 and " + c + " and " + _HA
                             for c in ["cpos == -1"] + ["cpos == %d" % k for k in range(1, 15)]]
                            + ["len(chunks) == 2 and chunks[0] == %d and cpos == -1 and %s" % (k, _HA) for k in range(1, 16)]
                            + ["len(chunks) == 2 and chunks[0] == %d and %s and %s" % (k, c, _HA) for k in range(1, 16)
                               for c in ("cpos >= 1 and cpos <= 5", "cpos >= 6 and cpos <= 10", "cpos >= 11")]},
         functions=["SecsIProtocol._process_received_data", "ByteQueue.wait_for/pop", "SecsIBlock.decode", "Protocol._dispatch_block"],
         bounds="one single-block message (header: device id and R-bit all values, S1F1/W and system bytes fixed: symbolic stream/function would enumerate the whole catalogue in the decode-for-logging step, symbolic system bytes made the checksum queries time out here - all system bytes are covered by C16 block_decode/block_corruption), body "
                "0..2 symbolic bytes, delivered in <= 2 chunks of symbolic sizes 1..15 plus the rest, after the EOT; optionally one corrupted header / data-tail / checksum byte (any value): EOT then ACK and "
                "one delivery, or EOT then NAK and no delivery",
         outside="corruption of the length byte (the receiver then waits for a different number of bytes: needs the T2 timeout, which "
                 "the library does not implement - NOT claimed); multi-block reception; thread interleavings"),
]
ASSUMPTIONS = ["half-duplex line with a reactive peer: the peer's bytes are supplied when the endpoint blocks in ByteQueue.wait_for "
               "(no thread interleavings, no timeouts)", "protocol thread and dispatcher run inline"]
