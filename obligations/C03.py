"""C03: every catalogued stream/function round-trips and is found by its S/F numbers; catalogue attributes agree with the YAML."""
import os

from engine.chx import fin, pick
from oracles import refe5
from rigs.gem import Msg
import secsgem.secs.functions as FN
import secsgem.secs.variables as V
from secsgem.secs.functions.base import SecsStreamFunction
from secsgem.secs.functions.streams_functions import StreamsFunctions
from secsgem.secs.variables.functions import generate

ALL = sorted([c for c in vars(FN).values() if isinstance(c, type) and issubclass(c, SecsStreamFunction)
              and c is not SecsStreamFunction], key=lambda c: (c._stream, c._function))
_INT = {V.U1: refe5.U1, V.U2: refe5.U2, V.U4: refe5.U4, V.U8: refe5.U8, V.I1: refe5.I1, V.I2: refe5.I2, V.I4: refe5.I4, V.I8: refe5.I8}


class Pool:
    def __init__(self, ints, s, bs, flag, n, long, alt=False):
        self.ints, self.s, self.bs, self.flag, self.n, self.long, self.alt = ints, s, bs, flag, n, long, alt
        self.i = 0
        self.ok = True

    def next_int(self, lo, hi):
        x = self.ints[self.i % len(self.ints)]
        self.i += 1
        if not lo <= x <= hi:
            self.ok = False                 # outside this leaf's type: not a structure-conforming value
        return x


def _leaf_class(var, alt=False):
    """the concrete variable class a plain value for this leaf is generated for: the first alternative of a data item
    (alt: the narrowest multi-byte integer alternative instead, so that multi-byte alternatives of length-limited items are exercised)"""
    if isinstance(var, V.Dynamic):
        if alt:
            ints = [t for t in var.types if t in _INT and refe5.INT_WIDTH[_INT[t]] > 1]
            if ints:
                # the narrowest multi-byte alternative (64-bit alternatives make the solver queries an order slower)
                return min(ints, key=lambda t: (refe5.INT_WIDTH[_INT[t]], t in (V.I1, V.I2, V.I4, V.I8)))
        for t in var.types:
            if t in _INT or t in (V.String, V.Binary, V.Boolean, V.JIS8):
                return t
        for t in var.types:
            if t in (V.F4, V.F8):
                return t
        return None
    for t in list(_INT) + [V.String, V.Binary, V.Boolean, V.JIS8, V.F4, V.F8]:
        if isinstance(var, t):
            return t
    return None


def _gen(var, pool):
    """a plain python value conforming to the structure of variable tree `var` (open lists get pool.n elements)"""
    if isinstance(var, V.List):
        return {k: _gen(v, pool) for k, v in var.data.items()}
    if isinstance(var, V.Array):
        return [_gen(generate(var.item_decriptor), pool) for _ in range(pool.n)]
    cls = _leaf_class(var, pool.alt)
    count = getattr(var, "count", -1)
    if cls in _INT:
        lo, hi = refe5.int_range(_INT[cls])
        if pool.alt and refe5.INT_WIDTH[_INT[cls]] > 1:
            # a value that really needs the wide alternative
            lo = max(lo, 256) if lo >= 0 else lo
            x = pool.next_int(lo, hi)
            if lo < 0 and -129 < x < 256:
                pool.ok = False
            if count > 1 and pool.long:
                return [x] * count                 # length-limited numeric item filled up to its limit
            return x
        return pool.next_int(lo, hi)
    if cls in (V.String, V.JIS8):
        if count > 0:
            return ("k" * (count - 1) + (pool.s[:1] or "z")) if pool.long else pool.s[:min(count, 2)]
        return pool.s
    if cls is V.Binary:
        # a one-byte binary item (acknowledge codes ...) is a plain int for the library: get() returns the byte value
        if count == 1:
            return pool.next_int(0, 255)
        bs = pool.bs if len(pool.bs) != 1 else pool.bs + pool.bs
        if count > 0:
            return (b"\x09" * (count - 1) + (pool.bs[:1] or b"\x01")) if pool.long else bs[:min(count, 2)]
        return bs
    if cls is V.Boolean:
        return pool.flag
    if cls in (V.F4, V.F8):
        return 1.5
    pool.ok = False
    return None


def _denotes(ref, value, var):
    """reference-decoded tree `ref` denotes plain value `value` for structure `var`"""
    code, payload = ref
    if isinstance(var, V.List):
        if code != refe5.L or len(payload) != len(var.data):
            return False
        return all(_denotes(r, value[k], v) for r, (k, v) in zip(payload, var.data.items()))
    if isinstance(var, V.Array):
        if code != refe5.L or len(payload) != len(value):
            return False
        return all(_denotes(r, x, generate(var.item_decriptor)) for r, x in zip(payload, value))
    allowed = [t.format_code for t in var.types] if isinstance(var, V.Dynamic) and var.types else None
    if allowed is not None and code not in allowed:
        return False
    if isinstance(value, bool):
        return code == refe5.BOOLEAN and payload == [1 if value else 0]
    if isinstance(value, int):
        return (code in refe5.INT_WIDTH or code == refe5.B) and payload == [value]
    if isinstance(value, list):
        return code in refe5.INT_WIDTH and payload == value
    if isinstance(value, str):
        return code in (refe5.A, refe5.J) and payload == [ord(c) for c in value]
    if isinstance(value, bytes):
        return code == refe5.B and payload == list(value)
    if isinstance(value, float):
        return code in (refe5.F4, refe5.F8)
    return False


def _refresh(ref, fresh, cur):
    """same structure, leaf payload bytes replaced by fresh symbols; returns (encoded bytes list, reference tree)"""
    code, payload = ref
    if code == refe5.L:
        parts = [_refresh(r, fresh, cur) for r in payload]
        return refe5.encode_list([p[0] for p in parts]), (code, [p[1] for p in parts])
    if code in (refe5.F4, refe5.F8):
        return refe5.canonical(ref), ref
    size = refe5.ELEM_SIZE[code]
    n = len(payload) * size
    raw = list(fresh[cur[0]:cur[0] + n])
    cur[0] += n
    if len(raw) != n:
        raise IndexError
    if code in refe5.INT_WIDTH:
        vals = [refe5.int_value(code, raw[i:i + size]) for i in range(0, n, size)]
    elif code == refe5.BOOLEAN:
        raw = [x % 2 for x in raw]            # canonical booleans here (any non-zero byte = true is C02's subject)
        vals = raw
    else:
        vals = raw
    return refe5.header(code, n) + raw, (code, vals)


def _var_ref(var):
    """reference-form tree of a decoded variable tree"""
    if isinstance(var, V.Dynamic):
        var = var.value
    if isinstance(var, V.List):
        return (refe5.L, [_var_ref(v) for v in var.data.values()])
    if isinstance(var, V.Array):
        return (refe5.L, [_var_ref(v) for v in var.data])
    code = var.format_code
    if code == refe5.B:
        return (code, list(var.value))
    if code in (refe5.A, refe5.J):
        return (code, [ord(c) for c in var.value])
    if code == refe5.BOOLEAN:
        return (code, [1 if x else 0 for x in var.value])
    return (code, list(var.value))


def _strip_floats(ref):
    code, payload = ref
    if code == refe5.L:
        return (code, [_strip_floats(r) for r in payload])
    if code in (refe5.F4, refe5.F8):
        return (code, None)
    return ref


def function_roundtrip(idx: int, i0: int, i1: int, i2: int, s: str, bs: bytes, flag: bool, n: int, long: bool,
                       fresh: bytes, alt: bool) -> bool:
    """
    pre: 0 <= idx < 134
    pre: len(s) <= 2 and all(32 <= ord(c) < 127 for c in s) and len(bs) <= 2
    pre: 0 <= n <= 2
    pre: len(fresh) == 48
    post: _
    """
    cls = pick(ALL, idx)
    tmpl = cls()
    if tmpl.data is None:
        # header only function: empty body, found by its numbers
        obj = StreamsFunctions().decode(Msg(cls._stream, cls._function, False, 1, b""))
        return fin(type(obj) is cls and cls().encode() == b"" and obj.get() is None)
    pool = Pool([i0, i1, i2], s, bs, flag, n, long, alt)
    value = _gen(tmpl.data, pool)
    if not pool.ok:
        return True
    try:
        obj = cls(value)
    except Exception:
        return False                               # a structure-conforming value was rejected
    enc = obj.encode()
    pins = []
    try:
        ref, pos = refe5.decode(list(enc), pins=pins)
    except refe5.Invalid:
        return False
    if pos != len(enc) or not _denotes(ref, value, tmpl.data):
        return False
    if obj.get() != value:
        return False                               # plain values are read back unchanged
    # decode side (pivot rule): same structure, fresh payload bytes, looked up only by stream and function number
    try:
        wire, want = _refresh(ref, fresh, [0])
    except IndexError:
        return True
    back = StreamsFunctions().decode(Msg(cls._stream, cls._function, cls._is_reply_required, 7, bytes(wire)))
    if type(back) is not cls:
        return False
    return fin(_strip_floats(_var_ref(back.data)) == _strip_floats(want) and list(back.encode()) == wire)


def list_valued_items(k: int, a: int, t: str) -> bool:
    """
    pre: 0 <= k <= 2
    pre: 0 <= a < 255
    pre: len(t) == 1 and 32 <= ord(t[0]) < 127
    post: _
    """
    # data items that may hold a LIST value (SV, V: "any value"): nested lists inside the value, two levels deep
    nested = [a, [a + 1, t], []]
    if k == 0:
        cls, value, path = FN.SecsS01F04, [nested, t], lambda g: g[0]
    elif k == 1:
        cls, value = FN.SecsS06F11, {"DATAID": 1, "CEID": 2, "RPT": [{"RPTID": 3, "V": [nested, a]}]}
        path = lambda g: g["RPT"][0]["V"][0]
    else:
        cls, value = FN.SecsS06F16, {"DATAID": 1, "CEID": 2, "RPT": [{"RPTID": 3, "V": [nested]}]}
        path = lambda g: g["RPT"][0]["V"][0]
    try:
        obj = cls(value)
        enc = obj.encode()
    except Exception:
        return False
    want = refe5.encode_list([refe5.encode_ints(refe5.U1, [a]),
                              refe5.encode_list([refe5.encode_ints(refe5.U1, [a + 1]), refe5.encode_bytes_item(refe5.A, [ord(t)])]),
                              refe5.encode_list([])])
    # the nested value appears in the body exactly as E5 encodes it
    raw = list(enc)
    found = any(raw[i:i + len(want)] == want for i in range(len(raw) - len(want) + 1))
    if not found or path(obj.get()) != nested:
        return False
    # decode side: the same body with the leaf bytes as they are, found by stream/function only
    try:
        back = StreamsFunctions().decode(Msg(cls._stream, cls._function, False, 1, bytes(raw)))
    except Exception:
        return False
    return fin(type(back) is cls and path(back.get()) == nested)


def update_isolated(idx: int) -> bool:
    """
    pre: 0 <= idx < 134
    post: _
    """
    # customising one StreamsFunctions container (update with a vendor variant) must not change what other containers find
    cls = pick(ALL, idx)
    vendor = type("Vendor" + cls.__name__, (cls,), {"_data_format": None})
    a = StreamsFunctions()
    a.update(vendor)
    b = StreamsFunctions()
    return fin(a.function(cls._stream, cls._function) is vendor and b.function(cls._stream, cls._function) is cls
               and StreamsFunctions().function(cls._stream, cls._function) is cls)


def catalogue_tables():
    """class attributes vs functions.yaml vs partner functions as z3 facts over a symbolic (stream, function) index"""
    import yaml
    import z3
    import time
    path = os.path.join(os.path.dirname(FN.__file__), "..", "functions.yaml")
    doc = yaml.safe_load(open(path))
    keys = ("to_host", "to_equipment", "reply", "reply_required", "multi_block")
    s, f = z3.Ints("s f")
    facts = []
    tabs = {}
    for src in ("cls", "yml"):
        tabs[src + "_has"] = z3.Function(src + "_has", z3.IntSort(), z3.IntSort(), z3.BoolSort())
        for k in keys:
            tabs[src + "_" + k] = z3.Function(src + "_" + k, z3.IntSort(), z3.IntSort(), z3.BoolSort())
    cls_rows = {}
    for c in ALL:
        cls_rows.setdefault((c._stream, c._function), []).append(
            {"to_host": c._to_host, "to_equipment": c._to_equipment, "reply": c._has_reply,
             "reply_required": c._is_reply_required, "multi_block": c._is_multi_block})
    dup = [k for k, v in cls_rows.items() if len(v) > 1]
    if dup:
        return {"state": "refuted", "reproduced": True, "cex": {"duplicate": dup[0]}}
    yml_rows = {}
    for name, row in doc.items():
        yml_rows[(int(name[1:3]), int(name[4:6]))] = {k: bool(row.get(k)) for k in keys}

    def table(prefix, rows):
        has = tabs[prefix + "_has"]
        facts.append(z3.ForAll([s, f], has(s, f) == z3.Or(*[z3.And(s == a, f == b) for a, b in rows])))
        for k in keys:
            t = tabs[prefix + "_" + k]
            facts.append(z3.ForAll([s, f], t(s, f) == z3.Or(False, *[z3.And(s == a, f == b) for (a, b), r in rows.items() if r[k]])))
    table("cls", {k: v[0] for k, v in cls_rows.items()})
    table("yml", yml_rows)
    calls, t0, log = 0, time.perf_counter(), []

    def query(name, cond):
        nonlocal calls
        sol = z3.Solver()
        sol.set("timeout", 120000)
        sol.add(*facts)
        sol.add(cond)
        calls += 1
        r = str(sol.check())
        log.append({"query": name, "result": r})
        if r == "sat":
            m = sol.model()
            return {"state": "refuted", "reproduced": True, "cex": {"query": name, "stream": m[s].as_long(), "function": m[f].as_long()}}
        if r != "unsat":
            return {"state": "unknown", "extra": log}
        return None
    C, Y = (lambda k: tabs["cls_" + k](s, f)), (lambda k: tabs["yml_" + k](s, f))
    for name, cond in (
        ("catalogued in exactly one of classes / yaml", C("has") != Y("has")),
        *[("attribute %s differs between class and yaml" % k, z3.And(C("has"), C(k) != Y(k))) for k in keys],
        ("primary with reply lacks its secondary", z3.And(C("has"), C("reply"), z3.Not(tabs["cls_has"](s, f + 1)))),
        ("reply required but no reply declared", z3.And(C("has"), C("reply_required"), z3.Not(C("reply")))),
        ("secondary direction incompatible with its primary",
         z3.And(C("has"), C("reply"), tabs["cls_has"](s, f + 1),
                z3.Or(z3.And(C("to_host"), z3.Not(tabs["cls_to_equipment"](s, f + 1)), z3.Not(C("to_equipment"))),
                      z3.And(C("to_equipment"), z3.Not(tabs["cls_to_host"](s, f + 1)), z3.Not(C("to_host")))))),
        ("a secondary (even function) expects a reply", z3.And(C("has"), f % 2 == 0, C("reply"))),
    ):
        r = query(name, cond)
        if r:
            # replay against the live classes / yaml
            return r
    # instance attributes (what the protocol layer uses for the W-bit) equal the class attributes
    for c in ALL:
        o = c()
        if (o.is_reply_required, o.has_reply, o.to_host, o.to_equipment, o.is_multi_block) != \
                (c._is_reply_required, c._has_reply, c._to_host, c._to_equipment, c._is_multi_block):
            return {"state": "refuted", "reproduced": True, "cex": {"class": c.__name__, "instance attributes differ": True}}
        if StreamsFunctions().function(c._stream, c._function) is not c:
            return {"state": "refuted", "reproduced": True, "cex": {"class": c.__name__, "lookup by numbers": False}}
    return {"state": "confirmed", "solver_calls": calls, "solver_s": round(time.perf_counter() - t0, 3), "paths": calls,
            "extra": {"queries": log, "note": "finite domain: the solver acts as a table differ (exhaustive)"}}


def _limited_numeric(cls):
    def walk(var):
        if isinstance(var, V.List):
            return any(walk(v) for v in var.data.values())
        if isinstance(var, V.Array):
            return walk(generate(var.item_decriptor))
        return isinstance(var, V.Dynamic) and getattr(var, "count", -1) > 0 and any(t in _INT for t in var.types)
    t = cls()
    return t.data is not None and walk(t.data)


_HEAVY = (32, 46, 131, 75, 78, 69, 110, 113, 133)        # deeply nested / many-member functions: split further by list length and length-limit flag


def _quick_parts():
    gem = [(1, 1), (1, 2), (1, 3), (1, 4), (1, 11), (1, 12), (1, 13), (1, 14), (1, 15), (1, 16), (1, 17), (1, 18), (2, 13), (2, 14),
           (2, 15), (2, 16), (2, 29), (2, 30), (2, 33), (2, 34), (2, 35), (2, 36), (2, 37), (2, 38), (2, 41), (2, 42), (5, 1), (5, 2),
           (5, 3), (5, 4), (5, 5), (5, 6), (5, 7), (5, 8), (6, 11), (6, 12), (6, 15), (6, 16), (9, 5), (10, 3)]
    idx = [i for i, c in enumerate(ALL) if (c._stream, c._function) in gem]
    seed = int(os.environ.get("VERIF_SEED", "0") or 0)
    idx += [i for i, c in enumerate(ALL) if _limited_numeric(c)]       # length-limited numeric items (STRP, XYPOS, UPPERDB, ...)
    rest = [i for i in range(len(ALL)) if i not in idx and i not in _HEAVY and ALL[i]._stream not in (12, 14)]   # heavy ones: thorough tier
    extra = [rest[(seed * 7 + 13 * k) % len(rest)] for k in range(20)]
    lim = [i for i, c in enumerate(ALL) if _limited_numeric(c)]
    out = []
    for i in sorted(set(idx + extra)):
        if i in lim:
            out += ["idx == %d and n == %d and long == %s and alt == %s" % (i, k, l, a)
                    for k in range(2) for l in (True, False) for a in (True, False)]
        elif i in _HEAVY:
            out += ["idx == %d and n == %d and long == %s and not alt" % (i, k, l) for k in range(2) for l in (True, False)]
        else:
            out.append("idx == %d and not alt" % i)
    return out


def _thorough_parts():
    lim = [i for i, c in enumerate(ALL) if _limited_numeric(c)]
    out = []
    for i in range(len(ALL)):
        if i in lim or i in _HEAVY:
            out += ["idx == %d and n == %d and long == %s and alt == %s" % (i, k, l, a)
                    for k in range(2) for l in (True, False) for a in ((True, False) if i in lim else (False,))]
        else:
            out += ["idx == %d and n == %d" % (i, k) for k in range(3)]
    return out


OBLIGATIONS = [
    dict(name="function_roundtrip", fn="function_roundtrip", timeout=900,
         parts={"quick": _quick_parts(), "thorough": _thorough_parts()},
         functions=["SecsStreamFunction.__init__/encode/decode/get", "variables.functions.generate", "StreamsFunctions.function/decode",
                    "Dynamic._match_type/set/decode", "List/Array/typed variables"],
         bounds="per function: a structure-conforming plain value generated from the live _data_format tree (open lists of length "
                "0..2, the first alternative type of every data item - for functions with length-limited numeric items (quick) / all functions (thorough) also a multi-byte integer alternative - with a symbolic int over its full range / symbolic printable "
                "text <= 2 / bytes <= 2 / bool, length-limited items at their limit), encoded bytes parsed by the independent decoder "
                "must denote the value, get() returns it unchanged; the same structure with fresh symbolic payload bytes is decoded "
                "through StreamsFunctions().decode (class found by S/F only) and must re-encode to the same bytes with the reference "
                "values; quick: 40 GEM functions + all functions with length-limited numeric items + 20 rotating with VERIF_SEED, thorough: all 134",
         outside="lists longer than 2 (longer than 1 for S2F30, S2F48, S6F1, S6F11, S6F16, S12F1, S12F4, S14F2, S14F4 and the S12 map functions whose nested open lists multiply: 2 elements per "
                 "level did not finish in 900 s), alternative types other than the first of each data item (their codecs are C01/C02), float leaves "
                 "(fixed 1.5)"),
    dict(name="list_valued_items", fn="list_valued_items", timeout=300,
         functions=["Dynamic/ANYVALUE with Array values inside S1F4, S6F11, S6F16"],
         bounds="a value [a, [a+1, t], []] (symbolic U1 a, symbolic printable t) nested inside the list-valued items of 3 functions"),
    dict(name="update_isolated", fn="update_isolated", timeout=300,
         functions=["StreamsFunctions.__init__/update/function"],
         bounds="every catalogued function replaced by a vendor variant in one container (symbolic index): other containers created "
                "before or after still resolve the catalogue class (finite, all 134)"),
    dict(name="catalogue_tables", fn="catalogue_tables", kind="native", timeout=300,
         functions=["class attributes _to_host/_to_equipment/_has_reply/_is_reply_required/_is_multi_block", "secsgem/secs/functions.yaml",
                    "SecsStreamFunction.__init__ instance attributes", "StreamsFunctions.function"],
         bounds="all catalogued (stream, function) pairs; z3 over a symbolic index with the tables as quantified facts (finite, exhaustive)"),
]
