"""C16: SECS-I blocks split, checksum and reassemble any message body without loss; corrupted blocks are never accepted."""
from typing import List

from crosshair.simplestructs import SimpleDict

from engine.chx import fin, pick
from oracles import refe4
from secsgem.secsi.header import SecsIHeader
from secsgem.secsi.message import SecsIBlock, SecsIMessage
from secsgem.common.protocol import Protocol


def _same(hdr, f):
    return (hdr.system == f["system"] and hdr.device_id == f["device_id"] and hdr.stream == f["stream"]
            and hdr.function == f["function"] and hdr.block == f["block"] and hdr.from_equipment == f["from_equipment"]
            and hdr.require_response == f["require_response"] and hdr.last_block == f["last_block"])


def header_encode(system: int, device_id: int, stream: int, function: int, block: int, r: bool, w: bool, e: bool) -> bool:
    """
    pre: 0 <= system < 2**32 and 0 <= device_id < 2**15 and 0 <= stream < 128 and 0 <= function < 256 and 0 <= block < 2**15
    post: _
    """
    h = SecsIHeader(system, device_id, stream, function, block, r, w, e)
    return fin(list(h.encode()) == refe4.header(system, device_id, stream, function, block, r, w, e))


def header_decode(hb: bytes) -> bool:
    """
    pre: len(hb) == 10
    post: _
    """
    h = SecsIHeader.decode(hb)
    return fin(_same(h, refe4.fields(list(hb))) and h.encode() == hb)


def block_encode(hb: bytes, data: bytes, big: int) -> bool:
    """
    pre: len(hb) == 10
    pre: len(data) <= 3
    pre: 0 <= big <= 1
    post: _
    """
    pl = pick([b"", b"\xa5" * 241], big) + data       # 241 + 3 = 244: the largest block
    blk = SecsIBlock(SecsIHeader.decode(hb), pl)
    return fin(list(blk.encode()) == refe4.block(list(hb), list(pl)))


def block_decode(hb: bytes, data: bytes, big: int) -> bool:
    """
    pre: len(hb) == 10
    pre: len(data) <= 3
    pre: 0 <= big <= 1
    post: _
    """
    pl = pick([b"", b"\xa5" * 241], big) + data
    wire = bytes(refe4.block(list(hb), list(pl)))
    blk = SecsIBlock.decode(wire)
    if blk is None:
        return False
    return fin(_same(blk.header, refe4.fields(list(hb))) and blk.data == pl)


def block_corruption(hb: bytes, data: bytes, pos: int, val: int) -> bool:
    """
    pre: len(hb) == 10
    pre: len(data) <= 3
    pre: 0 <= val < 256
    pre: 0 <= pos < 13 + len(data)
    post: _
    """
    wire = refe4.block(list(hb), list(data))
    bad = []
    changed = False
    for i in range(len(wire)):
        if i == pos:
            bad.append(val)
            changed = wire[i] != val
        else:
            bad.append(wire[i])
    if not changed:
        return True
    try:
        blk = SecsIBlock.decode(bytes(bad))
    except Exception:
        return fin(True)      # rejected by exception
    return fin(blk is None)   # rejected by checksum


def _split_ok(hb, body):
    hdr = SecsIHeader.decode(hb)
    f = refe4.fields(list(hb))
    msg = SecsIMessage(hdr, body)
    blocks = msg.blocks
    n = len(body)
    want = 1 if n == 0 else (n + 243) // 244
    if len(blocks) != want:
        return False
    joined = b""
    for i, b in enumerate(blocks):
        h = b.header
        if len(b.data) > 244 or h.block != i + 1 or h.last_block != (i == want - 1):
            return False
        if not (h.system == f["system"] and h.device_id == f["device_id"] and h.stream == f["stream"]
                and h.function == f["function"] and h.from_equipment == f["from_equipment"]
                and h.require_response == f["require_response"]):
            return False
        joined = joined + b.data
    return joined == body and msg.data == body and msg.complete


def split_boundaries(hb: bytes, tail: bytes, base: int) -> bool:
    """
    pre: len(hb) == 10
    pre: len(tail) <= 3
    pre: 0 <= base <= 3
    post: _
    """
    n0 = pick([0, 242, 486, 730], base)
    body = b"\x11" * n0 + tail
    return fin(_split_ok(hb, body))


def split_every_length(hb: bytes, n: int) -> bool:
    """
    pre: len(hb) == 10
    pre: 0 <= n <= 733
    post: _
    """
    body = b"\x11" * n
    return fin(_split_ok(hb, body))


def _secsi_protocol():
    from secsgem.secsi.protocol import SecsIProtocol
    from secsgem.secsi.settings import SecsISettings
    p = SecsIProtocol.__new__(SecsIProtocol)
    Protocol.__init__(p, SecsISettings(port="RIG"))
    return p



def reassembly(h1: bytes, h2: bytes, n1: int, n2: int, order: List[bool], d: bytes) -> bool:
    """
    pre: len(h1) == 10 and len(h2) == 10
    pre: 1 <= n1 <= 3 and 1 <= n2 <= 3
    pre: len(order) == 6
    pre: len(d) == 2
    post: _
    """
    f1, f2 = refe4.fields(list(h1)), refe4.fields(list(h2))
    if f1["system"] == f2["system"]:
        return True      # the property speaks about distinct transactions
    body1 = b"\x01" * (244 * (n1 - 1)) + d[:1]
    body2 = b"\x02" * (244 * (n2 - 1)) + d
    # blocks as produced by splitting (the wire codec of a block is covered by block_encode/block_decode: pivot rule)
    q1 = list(SecsIMessage(SecsIHeader.decode(h1), body1).blocks)
    q2 = list(SecsIMessage(SecsIHeader.decode(h2), body2).blocks)
    p = _secsi_protocol()
    p._incomplete_messages = SimpleDict([])
    done = []
    i = j = 0
    for take1 in order:
        if i < len(q1) and (take1 or j >= len(q2)):
            blk = q1[i]
            i += 1
        elif j < len(q2):
            blk = q2[j]
            j += 1
        else:
            break
        m = p._add_message_block(blk)
        if m is not None:
            done.append(m)
    if i != len(q1) or j != len(q2) or len(done) != 2 or len(p._incomplete_messages) != 0:
        return False
    for m in done:
        if m.header.system == f1["system"]:
            ok = m.data == body1 and m.header.stream == f1["stream"] and m.header.function == f1["function"] \
                and m.header.device_id == f1["device_id"] and m.header.require_response == f1["require_response"]
        else:
            ok = m.header.system == f2["system"] and m.data == body2 and m.header.stream == f2["stream"] \
                and m.header.function == f2["function"] and m.header.device_id == f2["device_id"]
        if not ok:
            return False
    return fin(True)


def block_limit():
    """the 32 767-block limit, concretely: a body of 32767 x 244 bytes splits into blocks 1..32767, E-bit only on the last"""
    body = bytes(32767 * 244)
    msg = SecsIMessage(SecsIHeader(7, 1, 1, 1, 0, False, True, True), body)
    bl = msg.blocks
    ok = len(bl) == 32767 and all(b.header.block == i + 1 for i, b in enumerate(bl)) \
        and [b.header.last_block for b in bl].count(True) == 1 and bl[-1].header.last_block \
        and all(SecsIHeader.decode(b.header.encode()).block == i + 1 for i, b in enumerate(bl))
    enc = bl[-1].encode()
    dec = SecsIBlock.decode(enc)
    ok = ok and dec is not None and dec.header.block == 32767 and dec.header.last_block
    return {"state": "confirmed" if ok else "refuted", "reproduced": not ok, "cex": {"blocks": len(bl)}, "paths": 32767,
            "extra": "concrete boundary run (32767 blocks)"}


# the 10 header bytes are covered field-wise: all 2^48 values of bytes 0..5 (R-bit, device id, W-bit, stream, function, E-bit,
# block number) with fixed system bytes, and all 2^32 system bytes with the other bytes fixed (with all 80 bits symbolic the
# checksum comparison over the re-encoded header times out in z3: measured 100 s without a verdict)
_HA = "hb[6] == 1 and hb[7] == 2 and hb[8] == 3 and hb[9] == 4"
_HB = "hb[0] == 129 and hb[1] == 2 and hb[2] == 131 and hb[3] == 4 and hb[4] == 133 and hb[5] == 6"

OBLIGATIONS = [
    dict(name="header_encode", fn="header_encode", timeout=120, functions=["SecsIHeader.__init__/encode"],
         bounds="all field values in range (system 32 bit, device 15, stream 7, function 8, block 15, R/W/E bits)"),
    dict(name="header_decode", fn="header_decode", timeout=120, functions=["SecsIHeader.decode/encode"],
         bounds="all 2^80 header byte strings (10 fresh symbolic bytes); re-encode reproduces the bytes"),
    dict(name="block_encode", fn="block_encode", timeout=200, functions=["Block.encode", "Block.checksum", "SecsIHeader.encode"],
         bounds="all headers; data 0..3 symbolic bytes, also after a 241-byte prefix (block sizes 241..244)"),
    dict(name="block_decode", fn="block_decode", timeout=300, parts=[_HA, _HB],
         functions=["Block.decode", "SecsIHeader.decode", "Block.checksum"],
         bounds="wire bytes built by the reference; header bytes field-wise (bytes 0..5 all values | system bytes all values), data 0..3 "
                "symbolic bytes, also after a 241-byte prefix",
         outside="all 80 header bits symbolic at once (solver timeout)"),
    dict(name="block_corruption", fn="block_corruption", timeout=400,
         parts={"quick": ["len(data) == 1 and " + _HA, "len(data) == 1 and " + _HB],
                "thorough": ["len(data) == %d and %s" % (n, h) for n in (0, 1, 2, 3) for h in (_HA, _HB)]},
         functions=["Block.decode (checksum over re-encoded header + data)"],
         bounds="every single-byte corruption (every position incl. length, header, data, checksum bytes; every replacement value) of "
                "every block with header bytes field-wise as in block_decode and 0..3 data bytes (quick: 1 data byte)",
         outside="blocks with more than 3 data bytes (sum argument is length independent); multi-byte corruption"),
    dict(name="split_boundaries", fn="split_boundaries", timeout=300,
         functions=["Message._split_blocks", "SecsIMessage.data/complete", "Header.updated_with"],
         bounds="all headers; body lengths {0,242,486,730}+0..3 (every 244 boundary crossed with symbolic tail bytes)"),
    dict(name="split_every_length", fn="split_every_length", timeout=900, tiers=("thorough",),
         parts=["%d <= n < %d" % (a, a + 46) for a in range(0, 736, 46)],
         functions=["Message._split_blocks"], bounds="every body length 0..733 (enumerated by the engine), all headers"),
    dict(name="reassembly", fn="reassembly", timeout=600,
         parts={"quick": ["n1 == %d and n2 == %d" % (a, b) for a in (1, 2) for b in (1, 2)],
                "thorough": ["n1 == %d and n2 == %d" % (a, b) for a in (1, 2, 3) for b in (1, 2, 3)]},
         functions=["Protocol._add_message_block", "SecsIMessage.from_block/complete/data", "Block.encode/decode"],
         bounds="two messages with arbitrary distinct headers/system bytes, 1..2 (thorough 1..3) blocks each, every merge order",
         outside="more than two concurrent transactions; equal system bytes"),
    dict(name="block_limit", fn="block_limit", kind="native", timeout=300, functions=["Message._split_blocks at 32767 blocks"],
         bounds="one concrete body of 7 995 148 bytes"),
]
