#!/bin/bash
# ./run_all.sh [quick|thorough] : every registered check, one after the other; summary in work/run_all_<tier>.log
tier=${1:-quick}; mkdir -p work; log=work/run_all_$tier.log; : > $log
for p in C01 C02 C03 C04 C05 C06 C07 C08 C09 C10 C11 C12 C13 C14 C15 C16 C17 C18 C19 C20; do
  s=$(date +%s); ./check $p --tier $tier > work/$p.$tier.out 2>&1; rc=$?; e=$(date +%s)
  echo "$p rc=$rc $((e-s))s $(tail -1 work/$p.$tier.out | cut -c1-200)" | tee -a $log
done
