"""Environment stub: a non-blocking socket seen only through its documented contract (DESIGN §2.4).

send(data) returns any n with 1 <= n <= len(data) (bytes accepted by the kernel), or raises OSError(EWOULDBLOCK) (nothing
accepted, retry later) or another OSError (connection failed, nothing accepted). The outcome sequence is the symbolic `script`:
entry s > 0 -> accept min(s, len(data)) bytes; s == 0 -> accept everything; s == -1 -> EWOULDBLOCK; s == -2 -> EPIPE.
s == -3 -> one byte is accepted and the socket is then closed locally (disable()/disconnect() from another thread): select() on it
raises ValueError (negative file descriptor) and send() raises OSError(EBADF) from then on.
When the script is exhausted the socket accepts everything (a peer that eventually drains), which bounds every run.
select() always reports writable (readiness never guarantees that send takes all bytes).
"""
import errno


class FakeSock:
    def __init__(self, script):
        self.script = script
        self.hard_error = False
        self.i = 0
        self.wire = b""
        self.calls = 0
        self.closed = False

    def fileno(self):
        return 3

    def send(self, data):
        self.calls += 1
        if self.closed:
            self.hard_error = True
            raise OSError(errno.EBADF, "bad file descriptor")
        if self.i >= len(self.script):
            n = len(data)
        else:
            n = self.script[self.i]
            self.i += 1
        if n == -1:
            raise OSError(errno.EWOULDBLOCK, "would block")
        if n == -2:
            self.hard_error = True
            raise OSError(errno.EPIPE, "broken pipe")
        if n == -3:
            self.closed = True
            self.hard_error = True
            n = 1
        if n <= 0 or n > len(data):
            n = len(data)
        self.wire = self.wire + data[:n]
        return n


def always_writable(r, w, x, timeout=None):
    for sock in list(r) + list(w):
        if getattr(sock, "closed", False):
            raise ValueError("file descriptor cannot be a negative integer (-1)")
    return (list(r), list(w), [])
