"""Sequential rig for the real GEM handlers (DESIGN §2.4): real GemEquipmentHandler / GemHostHandler on a protocol stub that
records every message handed to it; tables keyed by (possibly symbolic) ids are SimpleDicts; threads run inline."""
import random

random.randint = lambda a, b: 17

from crosshair.simplestructs import SimpleDict  # noqa: E402

import secsgem.common  # noqa: E402
import secsgem.gem  # noqa: E402
import secsgem.hsms  # noqa: E402
import secsgem.secs  # noqa: E402
import secsgem.gem.collection_event_capability as _cec  # noqa: E402


class RecProtocol(secsgem.common.Protocol):
    """protocol stub: records sends, never blocks; send_and_waitfor_response returns the scripted reply"""
    message_type = secsgem.hsms.HsmsMessage

    def __init__(self, settings):
        super().__init__(settings)
        self.sent = []          # (kind, function object, system)
        self.reply = None
        self.next_system = 1000

    def _on_connected(self, _):
        pass

    def _on_disconnecting(self, _):
        pass

    def _on_disconnected(self, _):
        pass

    def _process_send_queue(self):
        pass

    def _process_received_data(self):
        pass

    def serialize_data(self):
        return {}

    def _on_connection_message_received(self, source, message):
        pass

    def _get_log_extra(self):
        return {}

    def enable(self):
        pass

    def disable(self):
        pass

    def _create_message_for_function(self, function, system_id):
        return Msg(function.stream, function.function, function.is_reply_required, system_id, function)

    def send_message(self, message):
        self.sent.append(("message", message, message.header.system))
        return True

    def send_and_waitfor_response(self, function):
        self.next_system += 1
        self.sent.append(("request", function, self.next_system))
        r = self.reply
        if callable(r):
            r = r(function, self.next_system)
        return r

    def send_response(self, function, system):
        self.sent.append(("response", function, system))
        return True

    def send_stream_function(self, function):
        self.next_system += 1
        self.sent.append(("primary", function, self.next_system))
        return True


class RigSettings(secsgem.common.Settings):
    def __init__(self, **kw):
        super().__init__(**kw)
        self._p = RecProtocol(self)

    @classmethod
    def _args(cls):
        return super()._args()

    def create_protocol(self):
        return self._p

    def create_connection(self):
        return None

    @property
    def name(self):
        return "rig"

    def generate_thread_name(self, f):
        return "rig_" + f


class Hdr:
    def __init__(self, stream, function, w, system, session=0):
        self.stream, self.function, self.require_response, self.system, self.device_id = stream, function, w, system, session

    def encode(self):
        from oracles import refe37
        return bytes(refe37.header(self.system, self.device_id, self.stream, self.function, self.require_response, 0, 0))


class Msg:
    """inbound message whose body is the function object itself: StreamsFunctions.decode returns message.data unchanged when it
    already is a SecsStreamFunction, so handlers see exactly the structured request without a codec round trip (pivot rule)"""

    def __init__(self, stream, function, w, system, data):
        self.header = Hdr(stream, function, w, system)
        self.data = data
        self.blocks = []
        self.complete = True


def msg(function, system=1, w=None):
    return Msg(function.stream, function.function, function.is_reply_required if w is None else w, system, function)


class InlineThreading:
    """threading stand-in for modules that start a sender thread: the target runs inline, at once"""

    class Thread:
        def __init__(self, target=None, daemon=None, name=None, args=(), **kw):
            self.target, self.args = target, args

        def start(self):
            self.target(*self.args)


def make_equipment(symbolic=True, **kw):
    s = RigSettings(device_type=secsgem.common.DeviceType.EQUIPMENT)
    h = secsgem.gem.GemEquipmentHandler(s, **kw)
    _cec.threading = InlineThreading
    if symbolic:
        for attr in ("_collection_events", "_registered_reports", "_registered_collection_events", "_equipment_constants",
                     "_remote_commands", "_StatusDataCollectionCapability__status_variables", "_AlarmCapability__alarms",
                     "_DataValueCapability__data_values"):
            if attr in h.__dict__:
                setattr(h, attr, SimpleDict(list(getattr(h, attr).items())))
    return h, s._p


def make_host():
    s = RigSettings(device_type=secsgem.common.DeviceType.HOST)
    h = secsgem.gem.GemHostHandler(s)
    return h, s._p
