"""Two real GEM handlers (host + equipment) on a scheduled in-memory link (DESIGN §3 C20 `establish_schedules`).

Every message crosses the link as ENCODED bytes in one FIFO per direction (TCP keeps order per direction); *when* the head of a FIFO
is delivered, when a pending (virtual) timer expires, when the link is lost / selected again and when a side is disabled / enabled
is decided by the caller's schedule.  The HSMS session below the GEM layer is abstracted to the three notifications the GEM layer
consumes from it ('communicating' = session selected, 'disconnected', send failure while the link is down); the session model
itself is C05's subject.  The side that is HSMS-passive is selected first (it answers Select.req); the active side learns of it from
the Select.rsp, which travels in the same FIFO as the data messages that follow it.
"""
from rigs import gem as rig
from rigs.hsms import FakeThreading
import secsgem.gem.communication_state_machine as csm_mod
from secsgem.gem.communication_state_machine import CommunicationState

HOST, EQ = 0, 1
SELECTED = "SELECTED"


class NetProtocol(rig.RecProtocol):
    """protocol stub of one side: sends go to the peer's FIFO as bytes while the link is up and fail otherwise"""

    def __init__(self, settings):
        super().__init__(settings)
        self.net = None
        self.side = None
        self.enabled_flag = False

    def _xmit(self, function, system, w):
        net = self.net
        if not (net.up and self.enabled_flag):
            return False
        net.inbox[1 - self.side].append((function.stream, function.function, w, system, function.encode()))
        net.sent_log.append((self.side, function.stream, function.function, system))
        return True

    def enable(self):
        self.enabled_flag = True
        net = self.net
        if net.fast and not net.up and net.p[1 - self.side].enabled_flag:
            # the peer is already waiting: TCP connect and Select complete on the connection threads before enable() returns
            net.link_up()
            if net.inbox[self.side] and net.inbox[self.side][0] == SELECTED:
                net.deliver(self.side)

    def disable(self):
        self.enabled_flag = False

    def send_stream_function(self, function):
        self.next_system += 1
        return self._xmit(function, self.next_system, function.is_reply_required)

    def send_response(self, function, system):
        return self._xmit(function, system, False)

    def send_and_waitfor_response(self, function):
        # blocking request: the calling thread waits while the other threads of both endpoints go on (FIFO delivery) until the
        # reply with its system bytes is at the head of its own FIFO; None (= T3) if the link goes quiet without it
        self.next_system += 1
        mine = self.next_system
        if not self._xmit(function, mine, function.is_reply_required):
            return None
        net = self.net
        for _ in range(40):
            box = net.inbox[self.side]
            if box and box[0] != SELECTED and box[0][3] == mine and box[0][1] % 2 == 0:
                s, f, w, system, body = box.pop(0)
                return rig.Msg(s, f, w, system, body)
            if box:
                net.deliver(self.side)
            elif net.inbox[1 - self.side]:
                net.deliver(1 - self.side)
            else:
                return None
        return None


class _Settings(rig.RigSettings):
    def __init__(self, **kw):
        secs_kw = dict(kw)
        rig.secsgem.common.Settings.__init__(self, **secs_kw)
        self._p = NetProtocol(self)


class Net:
    def __init__(self, host_active, delay_h, delay_e, commack_h, commack_e, start_h=1000, start_e=5000, fast=False):
        self.ft = FakeThreading()
        csm_mod.threading = self.ft
        hs = _Settings(device_type=rig.secsgem.common.DeviceType.HOST)
        es = _Settings(device_type=rig.secsgem.common.DeviceType.EQUIPMENT)
        self.h = [rig.secsgem.gem.GemHostHandler(hs), rig.secsgem.gem.GemEquipmentHandler(es)]
        rig._cec.threading = rig.InlineThreading
        self.p = [hs._p, es._p]
        for side in (HOST, EQ):
            self.p[side].net, self.p[side].side = self, side
        self.p[HOST].next_system, self.p[EQ].next_system = start_h, start_e
        self.h[HOST].settings.establish_communication_timeout = delay_h
        self.h[EQ].settings.establish_communication_timeout = delay_e
        # the user's answer to the FIRST inbound S1F13 (a refusal is followed by acceptance: the peer retries for ever otherwise)
        self.refusals = [commack_h, commack_e]
        for side in (HOST, EQ):
            self.h[side].on_commack_requested = self._commack(side)
        self.active = HOST if host_active else EQ
        self.up = False
        self.fast = fast
        self.now = 0
        self.inbox = [[], []]
        self.sent_log = []
        self.errors = []
        self.delivered_app = [[], []]      # application messages handed to user callbacks, with the comm state at that moment
        for side in (HOST, EQ):
            self.h[side].register_stream_function(1, 1, self._app(side))

    def _commack(self, side):
        def answer():
            if self.refusals[side] > 0:
                self.refusals[side] -= 1
                return 1
            return 0
        return answer

    def _app(self, side):
        def cb(handler, message):
            self.delivered_app[side].append(handler._communication_state.current)
            return handler.stream_function(1, 2)() if side == HOST else handler.stream_function(1, 2)(["m", "1"])
        return cb

    # ---- state queries
    def state(self, side):
        return self.h[side]._communication_state.current

    def enabled(self, side):
        return self.state(side) != CommunicationState.DISABLED

    def communicating(self, side):
        return self.state(side) == CommunicationState.COMMUNICATING

    def timers(self, side):
        cm = self.h[side]._communication_state
        for t in self.ft.timers:
            if not hasattr(t, "due"):
                t.due = self.now + t.interval            # virtual clock: a timer is due `interval` after the event that created it
        return [t for t in self.ft.timers
                if t.started and not t.cancelled and not getattr(t, "fired", False) and t.function.__self__ is cm]

    # ---- events
    def enable(self, side):
        self.h[side].enable()

    def disable(self, side):
        was_up = self.up
        self.h[side].disable()
        if was_up:
            # the TCP connection goes down with the disabled side: the peer sees the loss, everything in flight is gone
            self.up = False
            self.inbox = [[], []]
            self._notify(1 - side, "disconnected")

    def _notify(self, side, name):
        # the HSMS layer fires these from its own threads; an exception raised by a listener ends up in that thread's log
        try:
            self.p[side].events.fire(name, {"connection": self.p[side]})
        except Exception as exc:  # noqa: BLE001
            self.errors.append((side, name, type(exc).__name__))

    def link_up(self):
        """TCP connect + Select exchange: the passive side is selected when it answers, the active side when the answer arrives"""
        self.up = True
        self.inbox = [[], []]
        passive = 1 - self.active
        self.inbox[self.active].append(SELECTED)
        self._notify(passive, "communicating")

    def link_loss(self):
        self.up = False
        self.inbox = [[], []]
        for side in (HOST, EQ):
            self._notify(side, "disconnected")

    def deliver(self, side):
        item = self.inbox[side].pop(0)
        if item == SELECTED:
            self._notify(side, "communicating")
            return
        s, f, w, system, body = item
        try:
            self.h[side]._on_message_received({"message": rig.Msg(s, f, w, system, body)})
        except Exception as exc:  # noqa: BLE001   (Protocol._dispatch_block logs and drops it)
            self.errors.append((side, "message", type(exc).__name__))

    def fire_timer(self, side):
        t = self.timers(side)[0]
        t.fired = True
        self.now = max(self.now, t.due)
        try:
            t.function()
        except Exception as exc:  # noqa: BLE001   (the timer thread dies with a traceback)
            self.errors.append((side, "timer", type(exc).__name__))

    # ---- schedule
    def options(self, budget):
        """events enabled now; budget = remaining [timer expiries, link losses, disables]"""
        o = []
        for side in (HOST, EQ):
            if self.inbox[side]:
                o.append(("deliver", side))
        for side in (HOST, EQ):
            if budget[0] > 0 and self.timers(side):
                o.append(("timer", side))
        for side in (HOST, EQ):
            if not self.enabled(side):
                o.append(("enable", side))
            elif budget[2] > 0:
                o.append(("disable", side))
        if not self.up and self.enabled(HOST) and self.enabled(EQ):
            o.append(("up", None))
        if self.up and budget[1] > 0:
            o.append(("loss", None))
        return o

    def do(self, ev, budget):
        kind, side = ev
        if kind == "deliver":
            self.deliver(side)
        elif kind == "timer":
            budget[0] -= 1
            self.fire_timer(side)
        elif kind == "enable":
            self.enable(side)
        elif kind == "disable":
            budget[2] -= 1
            self.disable(side)
        elif kind == "up":
            self.link_up()
        else:
            budget[1] -= 1
            self.link_loss()

    def settle(self, limit):
        """fair continuation: nobody is disabled or cut off any more; messages are delivered (FIFO, host side first) and, when the
        link is quiet, the pending timer that is due first (virtual clock) expires.  Returns the number of events used, or None when `limit` is not enough."""
        for n in range(limit):
            if not self.enabled(HOST):
                self.enable(HOST)
            elif not self.enabled(EQ):
                self.enable(EQ)
            elif not self.up:
                self.link_up()
            elif self.inbox[HOST]:
                self.deliver(HOST)
            elif self.inbox[EQ]:
                self.deliver(EQ)
            elif self.communicating(HOST) and self.communicating(EQ):
                return n
            elif self.timers(HOST) or self.timers(EQ):
                th, te = self.timers(HOST), self.timers(EQ)
                self.fire_timer(HOST if th and (not te or th[0].due <= te[0].due) else EQ)
            else:
                return None                      # stuck: nothing left that could ever establish communication
        return None
