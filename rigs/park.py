"""Environment stubs for blocking primitives (DESIGN §2.4).

ParkCondition replaces ByteQueue._buffer_lock: `wait_for(pred)` returns when the predicate already holds and raises Park
otherwise - "the only thread that could make progress is blocked here until more inbound data arrives". The rig then
delivers the next segment and re-enters the receive function; this models the blocked receiver thread exactly when nothing
was consumed for the incomplete frame before the park (asserted by the rigs that use it).
"""


class Park(Exception):
    def __init__(self, site="bytequeue"):
        super().__init__(site)
        self.site = site


class ParkCondition:
    def __enter__(self):
        return self

    def __exit__(self, *a):
        return False

    def notify_all(self):
        pass

    def wait_for(self, pred, timeout=None):
        if pred():
            return True
        raise Park("ByteQueue.wait_for")


class BlockSink:
    """stands for ProtocolDispatcher: records queued blocks; trigger_receiver is a no-op (the rig calls the receiver itself)"""

    def __init__(self):
        self.blocks = []

    def queue_block(self, source, block):
        self.blocks.append(block)

    def trigger_receiver(self):
        pass
