"""Sequential rig for the real HsmsProtocol (DESIGN §2.4): real protocol object, fake connection that records the wire,
sender run inline (the protocol's receiver/sender thread is replaced by a direct call), session state constructed directly."""
import random

random.randint = lambda a, b: 17          # initial system counter becomes a harness-controlled constant (CrossHair's random model aborts paths)

from crosshair.simplestructs import SimpleDict  # noqa: E402

import secsgem.common  # noqa: E402
import secsgem.hsms  # noqa: E402
import secsgem.hsms.protocol as _hp  # noqa: E402
from secsgem.hsms.protocol import HsmsProtocol  # noqa: E402


class FakeConn(secsgem.common.Connection):
    def __init__(self, settings):
        super().__init__(settings)
        self.wire = []
        self.fail = False

    def enable(self):
        pass

    def disable(self):
        pass

    def send_data(self, data):
        if self.fail:
            return False
        self.wire.append(data)
        return True


class _Settings(secsgem.hsms.HsmsSettings):
    def create_connection(self):
        return self._c


class TimerBusy(Exception):
    pass


class FakeThreading:
    """records Thread/Timer creation instead of starting OS threads (virtual timers: firing one is a harness event)"""

    def __init__(self):
        self.threads = []
        self.timers = []
        outer = self

        class Thread:
            def __init__(self, target=None, name=None, args=(), daemon=None, **kw):
                self.target, self.name, self.args, self.daemon = target, name, args, daemon
                self.started = False
                outer.threads.append(self)

            def start(self):
                self.started = True

            def is_alive(self):
                return False

            def join(self, timeout=None):
                pass

        class Timer:
            def __init__(self, interval, function, args=None, kwargs=None):
                self.interval, self.function = interval, function
                self.started = self.cancelled = False
                self.daemon = False
                self.name = ""
                outer.timers.append(self)

            def start(self):
                self.started = True

            def cancel(self):
                self.cancelled = True

            def join(self, timeout=None):
                # a timer whose callback is executing (e.g. waiting for a Linktest.rsp until T6) cannot be joined without
                # waiting for it: the caller would block
                if getattr(self, "running", False):
                    raise TimerBusy("join on a timer whose callback is still running")

        self.Thread, self.Timer = Thread, Timer


def make_protocol(active=False, symbolic_tables=True):
    mode = secsgem.hsms.HsmsConnectMode.ACTIVE if active else secsgem.hsms.HsmsConnectMode.PASSIVE
    s = _Settings(connect_mode=mode)
    s._c = FakeConn(s)
    p = HsmsProtocol(s)
    p._thread.trigger_receiver = p._process_send_queue      # single-threaded sender
    p._thread.start = lambda: None
    p._thread.stop = lambda: None
    delivered = []
    p.events.message_received += lambda d: delivered.append(d["message"])
    p._connection  # create the connection and register the protocol's callbacks
    if symbolic_tables:
        p._incomplete_messages = SimpleDict([])
        p._response_queues = SimpleDict([])
    return p, s._c, delivered


def set_state(p, idx):
    """0 NOT_CONNECTED, 1 CONNECTED_NOT_SELECTED, 2 CONNECTED_SELECTED with the active flags of the state and its ancestors"""
    sm = p.connection_state
    st = [sm.not_connected, sm.connected_not_selected, sm.connected_selected][idx]
    for x in (sm.not_connected, sm.connected, sm.connected_not_selected, sm.connected_selected):
        x._active = False
    sm._current_state = st
    st._active = True
    if idx > 0:
        sm.connected._active = True
    p._connected = idx > 0
    return sm
