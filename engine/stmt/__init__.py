"""E3b: interleavings of a real method at statement granularity, with the schedule as harness input (symbolic under CrossHair).

`steps(fn)` re-writes the *current source* of `fn` (inspect + ast, on every run) into a generator that yields before every
statement it executes - including the statements inside loops, branches, try/finally and with blocks - so a scheduler can run
several logical threads of the real code on the real objects and switch between them at any statement boundary of `fn`.
Callees (methods of other objects, event handlers) stay ordinary calls: they are atomic in this model.

`with <expr>:` on a lock object (anything with acquire/release) becomes a *model* lock: the logical thread announces the acquire
and is only resumed by the scheduler while the lock is free or already owned by it (re-entrant like RLock for RLock objects,
self-deadlocking for Lock objects). Other context managers are executed as they are.

`run(...)` executes a schedule: a list of decisions, consumed only when more than one logical thread is enabled (so code that
serialises itself with a lock has few distinct schedules), with a bound on the number of preemptions.

`replay_lines(...)` forces the executed order of (thread, line) steps on real threads running the real, un-rewritten function,
using sys.monitoring LINE events as hand-over points.
"""
import ast
import copy
import inspect
import textwrap


class Untranslatable(Exception):
    pass


_LOCKS = {}          # id(lock) -> [owner, count]
_CUR = [None]        # logical thread that is executing a step


def reset():
    _LOCKS.clear()
    _CUR[0] = None


def _is_lock(cm):
    return hasattr(cm, "acquire") and hasattr(cm, "release")


def _is_event(cm):
    return hasattr(cm, "is_set") and hasattr(cm, "wait") and hasattr(cm, "set")


def _reentrant(cm):
    return "RLock" in type(cm).__name__


def lock_free_for(cm, th):
    ent = _LOCKS.get(id(cm))
    if ent is None or ent[1] == 0:
        return True
    return ent[0] == th and _reentrant(cm)


def _acquire(cm):
    th = _CUR[0]
    ent = _LOCKS.setdefault(id(cm), [None, 0])
    if ent[1] and not (ent[0] == th and _reentrant(cm)):
        raise AssertionError("scheduler resumed a thread at a lock that is not free")
    ent[0] = th
    ent[1] += 1


def _release(cm):
    ent = _LOCKS[id(cm)]
    ent[1] -= 1
    if ent[1] == 0:
        ent[0] = None


def _lock_call(obj, meth, *args, **kwargs):
    """explicit <lock>.acquire(...) / <lock>.release() inside the rewritten function go to the model lock as well"""
    if not _is_lock(obj):
        return getattr(obj, meth)(*args, **kwargs)
    if meth == "release":
        ent = _LOCKS.get(id(obj))
        if ent is None or ent[1] == 0 or ent[0] != _CUR[0]:
            raise RuntimeError("cannot release un-acquired lock")
        return _release(obj)
    blocking = args[0] if args else kwargs.get("blocking", True)
    timeout = args[1] if len(args) > 1 else kwargs.get("timeout", -1)
    if lock_free_for(obj, _CUR[0]):
        _acquire(obj)
        return True
    if blocking and timeout == -1:
        # a blocking acquire in the middle of a statement cannot be suspended in this model
        raise Untranslatable("blocking acquire() of a held lock outside an expression statement")
    return False                                        # non-blocking / timed acquire of a held lock: gives up


class _LockCalls(ast.NodeTransformer):
    def visit_Call(self, node):
        self.generic_visit(node)
        if isinstance(node.func, ast.Attribute) and node.func.attr in ("acquire", "release"):
            return ast.copy_location(
                ast.Call(ast.Name("_stmt_lock_call", ast.Load()), [node.func.value, ast.Constant(node.func.attr)] + node.args,
                         node.keywords), node)
        return node


class _Rewriter:
    def __init__(self, line0):
        self.line0 = line0
        self.n = 0

    def _yield(self, node, kind="stmt", extra=None):
        elts = [ast.Constant(kind), ast.Constant(self.line0 + node.lineno - 1)]
        if extra is not None:
            elts.append(extra)
        return ast.Expr(ast.Yield(ast.Tuple(elts, ast.Load())))

    def block(self, stmts):
        out = []
        for st in stmts:
            out.extend(self.stmt(st))
        return out

    def stmt(self, st):
        if isinstance(st, (ast.FunctionDef, ast.AsyncFunctionDef, ast.ClassDef, ast.AsyncFor, ast.AsyncWith, ast.Match)) or \
                any(isinstance(x, (ast.Yield, ast.YieldFrom, ast.Await)) for x in ast.walk(st)):
            raise Untranslatable(type(st).__name__)
        if isinstance(st, ast.Try):
            # 'try:' itself does nothing: no hand-over point of its own
            st.body = self.block(st.body)
            for h in st.handlers:
                h.body = self.block(h.body)
            st.orelse = self.block(st.orelse)
            st.finalbody = self.block(st.finalbody)
            return [st]
        if isinstance(st, ast.While) and not st.orelse:
            # hand-over point before every evaluation of the loop test
            test = ast.If(ast.UnaryOp(ast.Not(), st.test), [ast.Break()], [])
            st.body = [self._yield(st), ast.copy_location(test, st)] + self.block(st.body)
            st.test = ast.Constant(True)
            return [st]
        if isinstance(st, (ast.For, ast.While)):
            st.body = self.block(st.body)
            st.orelse = self.block(st.orelse)
            return [self._yield(st), st]
        if isinstance(st, ast.Expr) and isinstance(st.value, ast.Call) and isinstance(st.value.func, ast.Attribute) \
                and st.value.func.attr == "wait" and not st.value.args and not st.value.keywords:
            # <event>.wait() as a statement of its own: the thread is resumed only while the (real) event is set
            self.n += 1
            var = "_stmt_cm%d" % self.n
            name = ast.Name(var, ast.Load())
            return [
                ast.Assign([ast.Name(var, ast.Store())], st.value.func.value),
                ast.If(ast.Call(ast.Name("_stmt_is_event", ast.Load()), [name], []),
                       [self._yield(st, "wait", name)], [self._yield(st)]),
                ast.Expr(ast.Call(ast.Attribute(name, "wait", ast.Load()), [], [])),
            ]
        if isinstance(st, ast.If):
            st.body = self.block(st.body)
            st.orelse = self.block(st.orelse)
            return [self._yield(st), st]
        if isinstance(st, ast.With):
            if len(st.items) != 1 or st.items[0].optional_vars is not None:
                st.body = self.block(st.body)
                return [self._yield(st), st]
            self.n += 1
            var = "_stmt_cm%d" % self.n
            body = self.block(st.body)
            plain = ast.With([ast.withitem(ast.Name(var, ast.Load()), None)], copy.deepcopy(body))
            locked = [
                self._yield(st, "acquire", ast.Name(var, ast.Load())),
                ast.Expr(ast.Call(ast.Name("_stmt_acquire", ast.Load()), [ast.Name(var, ast.Load())], [])),
                ast.Try(body, [], [], [ast.Expr(ast.Call(ast.Name("_stmt_release", ast.Load()), [ast.Name(var, ast.Load())], []))]),
            ]
            return [
                ast.Assign([ast.Name(var, ast.Store())], st.items[0].context_expr),
                ast.If(ast.Call(ast.Name("_stmt_is_lock", ast.Load()), [ast.Name(var, ast.Load())], []),
                       locked, [self._yield(st), plain]),
            ]
        if isinstance(st, ast.Expr) and isinstance(st.value, ast.Call) and isinstance(st.value.func, ast.Attribute) \
                and st.value.func.attr == "acquire" and not st.value.args and not st.value.keywords:
            # <lock>.acquire() as a statement of its own: announced like 'with', resumed only while the lock is free
            self.n += 1
            var = "_stmt_cm%d" % self.n
            name = ast.Name(var, ast.Load())
            return [
                ast.Assign([ast.Name(var, ast.Store())], st.value.func.value),
                ast.If(ast.Call(ast.Name("_stmt_is_lock", ast.Load()), [name], []),
                       [self._yield(st, "acquire", name), ast.Expr(ast.Call(ast.Name("_stmt_acquire", ast.Load()), [name], []))],
                       [self._yield(st), ast.Expr(ast.Call(ast.Attribute(name, "acquire", ast.Load()), [], []))]),
            ]
        return [self._yield(st), st]


def steps(fn):
    """generator version of fn (same parameters), compiled from fn's current source in fn's globals"""
    fn = getattr(fn, "__func__", fn)
    try:
        src = textwrap.dedent(inspect.getsource(fn))
    except (OSError, TypeError) as e:
        raise Untranslatable("no source: %r" % (e,))
    tree = ast.parse(src)
    fdef = tree.body[0]
    if not isinstance(fdef, ast.FunctionDef) or fdef.decorator_list or fn.__code__.co_freevars:
        raise Untranslatable("decorated / closure / not a plain function")
    rw = _Rewriter(fn.__code__.co_firstlineno)
    body = fdef.body
    doc = []
    if body and isinstance(body[0], ast.Expr) and isinstance(body[0].value, ast.Constant) and isinstance(body[0].value.value, str):
        doc, body = body[:1], body[1:]
    fdef.body = doc + rw.block(body)
    _LockCalls().visit(fdef)
    fdef.name = fn.__name__ + "__steps"
    fdef.returns = None
    for a in fdef.args.args + fdef.args.kwonlyargs:
        a.annotation = None
    ast.fix_missing_locations(tree)
    ns = dict(fn.__globals__)
    ns.update(_stmt_acquire=_acquire, _stmt_release=_release, _stmt_is_lock=_is_lock, _stmt_lock_call=_lock_call,
              _stmt_is_event=_is_event)
    exec(compile(tree, "<steps of %s>" % fn.__qualname__, "exec"), ns)
    return ns[fdef.name]


def describe(fn):
    g = steps(fn)
    src = textwrap.dedent(inspect.getsource(getattr(fn, "__func__", fn)))
    tree = ast.parse(src)
    n_with = len([1 for x in ast.walk(tree) if isinstance(x, ast.With)])
    n_stmt = len([1 for x in ast.walk(tree.body[0]) if isinstance(x, ast.stmt)]) - 1
    return {"function": fn.__qualname__, "statements": n_stmt, "with_blocks": n_with, "generator": g.__name__}


def run(calls, first, preempt_at, max_steps=400):
    """calls: list of zero-argument callables returning the generator of one logical thread.
    first: the thread that runs first (taken modulo the number of threads).
    preempt_at: step numbers (counted over all executed steps, from 0); before the step with such a number the running thread
    is preempted in favour of the next enabled thread, if there is one. len(preempt_at) bounds the number of preemptions; the
    numbers are only looked at while a second thread is enabled, so code that serialises itself with a lock has few schedules.
    A thread that finished or waits for a lock hands over to the next enabled thread.
    Returns (results, order) with results[t] = ("ret", value) | ("exc", exception) | ("deadlock",) and
    order = list of (thread, line) steps in the order they were executed."""
    reset()
    n = len(calls)
    gens = [None] * n
    pending = [("start", 0)] * n          # what each thread announced before its next step
    results = [None] * n
    order = []
    cur = 0
    for t in range(1, n):
        if first % n == t:
            cur = t

    def enabled_threads():
        out = []
        for t in range(n):
            if results[t] is not None:
                continue
            p = pending[t]
            if p[0] == "acquire" and not lock_free_for(p[2], t):
                continue
            if p[0] == "wait" and not p[2].is_set():
                continue
            out.append(t)
        return out

    def next_enabled(en, after):
        for k in range(1, n + 1):
            if (after + k) % n in en:
                return (after + k) % n
        return None

    for t in range(n):                    # running up to the first announcement executes no statement of fn
        _CUR[0] = t
        gens[t] = calls[t]()
        try:
            pending[t] = next(gens[t])
        except StopIteration as s:
            results[t] = ("ret", s.value)
    _CUR[0] = None
    total = 0
    try:
        while True:
            en = enabled_threads()
            if not en:
                for t in range(n):
                    if results[t] is None:
                        results[t] = ("deadlock",)
                break
            if cur not in en:
                cur = next_enabled(en, cur)
            elif len(en) > 1:
                hit = False
                for p in preempt_at:
                    if p == total:
                        hit = True
                if hit:
                    cur = next_enabled([t for t in en if t != cur], cur)
            if total >= max_steps:
                raise AssertionError("step bound exceeded")
            _CUR[0] = cur
            try:
                order.append((cur, pending[cur][1]))
                pending[cur] = next(gens[cur])
            except StopIteration as s:
                results[cur] = ("ret", s.value)
            except Exception as e:  # noqa  (CrossHair's control-flow exceptions are BaseException)
                results[cur] = ("exc", e)
            finally:
                _CUR[0] = None
            total += 1
    finally:
        # suspended generators are closed here (also when the engine abandons the path), not whenever the collector gets to them:
        # a late GeneratorExit would run traced code of an old path inside a new one
        _CUR[0] = None
        for g in gens:
            if g is not None:
                try:
                    g.close()
                except Exception:  # noqa
                    pass
    return results, order


def replay_lines(fn, calls, order, timeout=10.0):
    """force `order` (list of (thread, line) steps as returned by run) on real threads; calls[t]() invokes the real function.
    Hand-over points are sys.monitoring LINE events of fn's code object whose line equals the thread's next expected step line.
    Returns results[t] = ("ret", v) | ("exc", e) | None (did not finish)."""
    import sys
    import threading
    fns = fn if isinstance(fn, (list, tuple)) else [fn]
    codes = [getattr(f, "__func__", f).__code__ for f in fns]
    n = len(calls)
    expected = [[ln for t, ln in order if t == th] for th in range(n)]
    seq = [t for t, _ in order]
    mon = sys.monitoring
    tool = [i for i in range(6) if mon.get_tool(i) is None][0]
    turn = threading.Condition()
    state = {"pos": 0, "finished": set()}
    results = [None] * n
    local = threading.local()

    def on_line(c, line):
        th = getattr(local, "th", None)
        if th is None or not any(c is x for x in codes):
            return None
        i = local.idx
        if i >= len(expected[th]) or line != expected[th][i]:
            return None
        with turn:
            if i > 0:
                state["pos"] += 1              # the previous step of this thread is complete
                turn.notify_all()
            local.idx = i + 1
            while True:
                while state["pos"] < len(seq) and seq[state["pos"]] in state["finished"]:
                    state["pos"] += 1
                if state["pos"] >= len(seq) or seq[state["pos"]] == th:
                    return None
                if not turn.wait(timeout):
                    return None

    def runner(th):
        local.th, local.idx = th, 0
        try:
            results[th] = ("ret", calls[th]())
        except Exception as e:  # noqa
            results[th] = ("exc", e)
        finally:
            with turn:
                if local.idx > 0:
                    state["pos"] += 1
                state["finished"].add(th)
                turn.notify_all()
            local.th = None
    mon.use_tool_id(tool, "verif-e3b")
    try:
        mon.register_callback(tool, mon.events.LINE, on_line)
        for code in codes:
            mon.set_local_events(tool, code, mon.events.LINE)
        threads = [threading.Thread(target=runner, args=(i,), daemon=True) for i in range(n)]
        for t in threads:
            t.start()
        import time
        end = time.time() + timeout
        for t in threads:
            t.join(max(0.0, end - time.time()))
    finally:
        for code in codes:
            mon.set_local_events(tool, code, 0)
        mon.register_callback(tool, mon.events.LINE, None)
        mon.free_tool_id(tool)
    return results
