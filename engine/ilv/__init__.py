"""E3: interleavings as symbolic schedules over the REAL bytecode (DESIGN §2.3).

The live code object of a small, loop-free method is read with `dis` (regenerated from /repo's working tree on every run)
and executed symbolically, one copy per thread, by a z3 transition system:

  state_t = per thread: pc, operand stack (fixed depth), return value, done flag; shared: the attributes of `self` that the
            code loads/stores (one z3 Int each), one lock owner per lock attribute
  step t  : the scheduled thread sched[t] (a z3 Int, the SYMBOLIC SCHEDULE) executes exactly one bytecode; a thread whose
            next instruction is a lock acquire is only enabled while the lock is free; finished threads cannot be scheduled

The query asks z3 for a schedule (and start values) after which every thread has returned and the property is violated
(e.g. two threads returned equal ids). unsat => no schedule of K = sum of instruction counts steps violates it (bounded:
2 or 3 threads, one call each). sat => the schedule is replayed on real threads that run the real method under
sys.settrace with per-opcode hand-over (`replay`); only a reproduced violation is reported.

Supported opcodes (CPython 3.12): RESUME NOP CACHE PRECALL COPY SWAP POP_TOP LOAD_FAST(self) LOAD_CONST(int/None)
LOAD_ATTR(attribute of self; method flag unsupported) STORE_ATTR BINARY_OP(+ += - -=) COMPARE_OP(< <= == != > >=)
POP_JUMP_IF_FALSE/TRUE JUMP_FORWARD RETURN_VALUE RETURN_CONST BEFORE_WITH(lock) CALL(lock exit) and the exception-table
blocks of `with` are unreachable on the normal path. Anything else -> Unsupported (the obligation is inconclusive).
Granularity assumption: a thread switch may happen between any two bytecodes (free-threaded / fine-grained eval breaker).
"""
import dis
import time

import z3

SELF, NONE, LOCK_BASE, EXIT_BASE = -1000001, -1000002, -2000000, -3000000


class Unsupported(Exception):
    pass


def _instructions(fn):
    # RESUME is dropped: it has no effect and produces no sys.monitoring INSTRUCTION event (keeps the replay aligned)
    ins = [i for i in dis.get_instructions(fn) if i.opname not in ("CACHE", "RESUME")]
    # cut at the first exception-handler-only instruction block of a `with` (PUSH_EXC_INFO ...): unreachable on the normal path
    out = []
    for i in ins:
        if i.opname == "PUSH_EXC_INFO":
            break
        out.append(i)
    return out


class Program:
    def __init__(self, fn, lock_attrs=()):
        self.fn = fn
        self.ins = _instructions(fn)
        self.index = {i.offset: k for k, i in enumerate(self.ins)}
        self.attrs = []
        self.locks = list(lock_attrs)
        for i in self.ins:
            if i.opname in ("LOAD_ATTR", "STORE_ATTR") and i.argval not in self.attrs and i.argval not in self.locks:
                self.attrs.append(i.argval)

    def describe(self):
        return [f"{i.offset}:{i.opname} {i.argrepr}".strip() for i in self.ins]


def search(prog, nthreads, init_constraints, violation, depth=6, timeout_ms=120000):
    """build the transition system and ask z3 for a violating schedule.
    init_constraints(shared0: dict attr->Int) -> list of z3 constraints on the start values
    violation(rets: list of Int, shared_final: dict) -> z3 Bool
    returns dict(result=sat|unsat|unknown, schedule=[thread ids], start={attr: value}, rets=[...], steps=K, solver_s=...)"""
    n = len(prog.ins)
    K = nthreads * n
    s = z3.Solver()
    s.set("timeout", timeout_ms)
    D = depth

    def fresh(name, t):
        return z3.Int(f"{name}_{t}")

    # state at time 0
    pcs = [z3.IntVal(0) for _ in range(nthreads)]
    sps = [z3.IntVal(0) for _ in range(nthreads)]
    stacks = [[z3.IntVal(0) for _ in range(D)] for _ in range(nthreads)]
    rets = [z3.IntVal(0) for _ in range(nthreads)]
    done = [z3.BoolVal(False) for _ in range(nthreads)]
    shared = {a: z3.Int(f"init_{a}") for a in prog.attrs}
    start_vars = dict(shared)
    locks = {lk: z3.IntVal(-1) for lk in prog.locks}
    s.add(*init_constraints(shared))
    sched = []
    # partial-order reduction: bytecodes that touch no shared state (stack shuffling, constants, compares, jumps) commute with
    # every step of the other threads, so a thread switch is only considered after a VISIBLE bytecode (attribute load/store,
    # lock acquire/release, return) - every schedule is equivalent to such a canonical one
    visible = [i.opname in ("LOAD_ATTR", "STORE_ATTR", "BEFORE_WITH", "CALL", "RETURN_VALUE", "RETURN_CONST") for i in prog.ins]
    last_vis = z3.BoolVal(True)
    last_c = None

    def rd(stack, sp, k):
        """stack slot sp-1-k (k-th from top)"""
        idx = sp - 1 - k
        e = stack[0]
        for j in range(1, D):
            e = z3.If(idx == j, stack[j], e)
        return e

    def wr(stack, idx, val):
        return [z3.If(idx == j, val, stack[j]) for j in range(D)]

    for t in range(K):
        c = fresh("sched", t)
        sched.append(c)
        all_done = z3.And(*done)
        # enabledness: chosen thread not done, and not blocked on a held lock
        blocked = []
        for th in range(nthreads):
            b = z3.BoolVal(False)
            for k, ins in enumerate(prog.ins):
                if ins.opname == "BEFORE_WITH":
                    top = rd(stacks[th], sps[th], 0)
                    for li, lk in enumerate(prog.locks):
                        b = z3.Or(b, z3.And(pcs[th] == k, top == LOCK_BASE - li, locks[lk] != -1))
            blocked.append(b)
        s.add(z3.Or(all_done, z3.And(c >= 0, c < nthreads)))
        if last_c is not None:
            s.add(z3.Implies(z3.And(z3.Not(all_done), z3.Not(last_vis)), c == last_c))
        cur_vis = z3.BoolVal(False)
        for th in range(nthreads):
            for k, v in enumerate(visible):
                if v:
                    cur_vis = z3.Or(cur_vis, z3.And(c == th, pcs[th] == k))
        vis_var = z3.Bool(f"vis_{t}")
        s.add(vis_var == cur_vis)
        last_vis, last_c = vis_var, c
        for th in range(nthreads):
            s.add(z3.Implies(z3.And(z3.Not(all_done), c == th), z3.And(z3.Not(done[th]), z3.Not(blocked[th]))))
        new_pcs, new_sps, new_stacks, new_rets, new_done = list(pcs), list(sps), [list(x) for x in stacks], list(rets), list(done)
        new_shared = dict(shared)
        new_locks = dict(locks)
        for th in range(nthreads):
            active = z3.And(z3.Not(all_done), c == th)
            pc, sp, st = pcs[th], sps[th], stacks[th]
            npc, nsp, nst, nret, ndone = pc, sp, st, rets[th], done[th]
            nsh = dict(shared)
            nlk = dict(locks)
            for k, ins in enumerate(prog.ins):
                here = z3.And(active, pc == k)
                op = ins.opname
                e_pc, e_sp, e_st, e_ret, e_done = z3.IntVal(k + 1), sp, st, rets[th], done[th]
                e_sh, e_lk = {}, {}
                if op in ("RESUME", "NOP", "PRECALL"):
                    pass
                elif op == "LOAD_FAST":
                    if ins.argval != "self":
                        raise Unsupported(f"LOAD_FAST {ins.argval}")
                    e_st, e_sp = wr(st, sp, z3.IntVal(SELF)), sp + 1
                elif op == "LOAD_CONST":
                    v = ins.argval
                    if v is None:
                        e_st, e_sp = wr(st, sp, z3.IntVal(NONE)), sp + 1
                    elif isinstance(v, int) and not isinstance(v, bool):
                        e_st, e_sp = wr(st, sp, z3.IntVal(v)), sp + 1
                    else:
                        raise Unsupported(f"LOAD_CONST {v!r}")
                elif op == "COPY":
                    e_st, e_sp = wr(st, sp, rd(st, sp, ins.arg - 1)), sp + 1
                elif op == "SWAP":
                    a, b = rd(st, sp, 0), rd(st, sp, ins.arg - 1)
                    e_st = wr(wr(st, sp - 1, b), sp - ins.arg, a)
                elif op == "POP_TOP":
                    e_sp = sp - 1
                elif op == "LOAD_ATTR":
                    if ins.arg & 1:
                        raise Unsupported("LOAD_ATTR method form")
                    if ins.argval in prog.locks:
                        val = z3.IntVal(LOCK_BASE - prog.locks.index(ins.argval))
                    else:
                        val = shared[ins.argval]
                    e_st = wr(st, sp - 1, val)          # replaces `self` on the stack
                elif op == "STORE_ATTR":
                    # TOS = owner (self), TOS1 = value
                    e_sh[ins.argval] = rd(st, sp, 1)
                    e_sp = sp - 2
                elif op == "BINARY_OP":
                    b, a = rd(st, sp, 0), rd(st, sp, 1)
                    if ins.argrepr in ("+", "+="):
                        r = a + b
                    elif ins.argrepr in ("-", "-="):
                        r = a - b
                    else:
                        raise Unsupported(f"BINARY_OP {ins.argrepr}")
                    e_st, e_sp = wr(st, sp - 2, r), sp - 1
                elif op == "COMPARE_OP":
                    b, a = rd(st, sp, 0), rd(st, sp, 1)
                    cmpv = {"<": a < b, "<=": a <= b, "==": a == b, "!=": a != b, ">": a > b, ">=": a >= b}.get(ins.argval)
                    if cmpv is None:
                        raise Unsupported(f"COMPARE_OP {ins.argval}")
                    e_st, e_sp = wr(st, sp - 2, z3.If(cmpv, z3.IntVal(1), z3.IntVal(0))), sp - 1
                elif op in ("POP_JUMP_IF_FALSE", "POP_JUMP_IF_TRUE"):
                    top = rd(st, sp, 0)
                    tgt = prog.index[ins.argval]
                    jump = (top == 0) if op == "POP_JUMP_IF_FALSE" else (top != 0)
                    e_pc, e_sp = z3.If(jump, z3.IntVal(tgt), z3.IntVal(k + 1)), sp - 1
                elif op == "JUMP_FORWARD":
                    e_pc = z3.IntVal(prog.index[ins.argval])
                elif op == "RETURN_VALUE":
                    e_ret, e_done, e_sp, e_pc = rd(st, sp, 0), z3.BoolVal(True), sp - 1, z3.IntVal(k)
                elif op == "RETURN_CONST":
                    if not (ins.argval is None or isinstance(ins.argval, int)):
                        raise Unsupported("RETURN_CONST")
                    e_ret, e_done, e_pc = z3.IntVal(NONE if ins.argval is None else ins.argval), z3.BoolVal(True), z3.IntVal(k)
                elif op == "BEFORE_WITH":
                    # TOS = lock: acquire (enabledness was constrained above); push __exit__ marker and the __enter__ result
                    top = rd(st, sp, 0)
                    for li, lk in enumerate(prog.locks):
                        e_lk[lk] = z3.If(top == LOCK_BASE - li, z3.IntVal(th), locks[lk])
                    exit_marker = z3.IntVal(0)
                    for li, lk in enumerate(prog.locks):
                        exit_marker = z3.If(top == LOCK_BASE - li, z3.IntVal(EXIT_BASE - li), exit_marker)
                    e_st = wr(wr(st, sp - 1, exit_marker), sp, z3.IntVal(NONE))
                    e_sp = sp + 1
                elif op == "CALL":
                    # only the `__exit__(None, None, None)` call of a with block: callable below its args
                    nargs = ins.arg
                    # CPython 3.12 layout: [callable, self_or_NULL, arg1..argN]; for the with-exit call the three None
                    # constants are self_or_NULL + 2 args, the bound __exit__ left by BEFORE_WITH is the callable
                    callee = rd(st, sp, nargs + 1)
                    for li, lk in enumerate(prog.locks):
                        e_lk[lk] = z3.If(callee == EXIT_BASE - li, z3.IntVal(-1), locks[lk])
                    e_st, e_sp = wr(st, sp - nargs - 2, z3.IntVal(NONE)), sp - nargs - 1
                else:
                    raise Unsupported(op)
                npc = z3.If(here, e_pc, npc)
                nsp = z3.If(here, e_sp, nsp)
                nst = [z3.If(here, e_st[j], nst[j]) for j in range(D)]
                nret = z3.If(here, e_ret, nret)
                ndone = z3.If(here, e_done, ndone)
                for a, v in e_sh.items():
                    new_shared[a] = z3.If(here, v, new_shared[a])
                for lk, v in e_lk.items():
                    new_locks[lk] = z3.If(here, v, new_locks[lk])
            new_pcs[th], new_sps[th], new_stacks[th], new_rets[th], new_done[th] = npc, nsp, nst, nret, ndone
        # fresh variables per step keep the terms small
        def name(prefix, th=None, j=None):
            return f"{prefix}_{t + 1}" + ("" if th is None else f"_{th}") + ("" if j is None else f"_{j}")
        nxt_pcs, nxt_sps, nxt_stacks, nxt_rets, nxt_done = [], [], [], [], []
        for th in range(nthreads):
            v = z3.Int(name("pc", th)); s.add(v == new_pcs[th]); nxt_pcs.append(v)
            v = z3.Int(name("sp", th)); s.add(v == new_sps[th]); nxt_sps.append(v)
            row = []
            for j in range(D):
                v = z3.Int(name("st", th, j)); s.add(v == new_stacks[th][j]); row.append(v)
            nxt_stacks.append(row)
            v = z3.Int(name("ret", th)); s.add(v == new_rets[th]); nxt_rets.append(v)
            v = z3.Bool(name("done", th)); s.add(v == new_done[th]); nxt_done.append(v)
        nsh2 = {}
        for a in prog.attrs:
            v = z3.Int(name("sh_" + a)); s.add(v == new_shared[a]); nsh2[a] = v
        nlk2 = {}
        for lk in prog.locks:
            v = z3.Int(name("lk_" + lk)); s.add(v == new_locks[lk]); nlk2[lk] = v
        pcs, sps, stacks, rets, done, shared, locks = nxt_pcs, nxt_sps, nxt_stacks, nxt_rets, nxt_done, nsh2, nlk2
    s.add(z3.And(*done))
    s.add(violation(rets, shared))
    t0 = time.perf_counter()
    r = str(s.check())
    out = {"result": r, "steps": K, "solver_s": round(time.perf_counter() - t0, 3), "instructions": n}
    if r == "sat":
        m = s.model()
        sc = []
        for t in range(K):
            v = m.eval(sched[t], model_completion=True).as_long()
            sc.append(v)
        out["schedule"] = sc
        out["start"] = {a: m.eval(v, model_completion=True).as_long() for a, v in start_vars.items()}
        out["rets"] = [m.eval(x, model_completion=True).as_long() for x in rets]
    return out


def replay(fn, make_self, schedule, nthreads, timeout=10.0):
    """force `schedule` (list of thread ids, one entry per bytecode step) on real threads running the real function, using
    sys.monitoring INSTRUCTION events (CPython 3.12) as per-bytecode hand-over points; returns the list of return values
    (None for a thread that did not finish)"""
    import sys
    import threading
    obj = make_self()
    code = fn.__code__
    mon = sys.monitoring
    tool = mon.DEBUGGER_ID
    turn = threading.Condition()
    state = {"pos": 0, "finished": set()}
    results = [None] * nthreads
    sched = [x for x in schedule if 0 <= x < nthreads]
    local = threading.local()

    def on_instruction(c, offset):
        th = getattr(local, "th", None)
        if th is None or c is not code:
            return
        with turn:
            if not local.first:
                state["pos"] += 1                  # the previous bytecode of this thread has completed
                turn.notify_all()
            local.first = False
            while True:
                while state["pos"] < len(sched) and sched[state["pos"]] in state["finished"]:
                    state["pos"] += 1
                if state["pos"] >= len(sched) or sched[state["pos"]] == th:
                    return
                if not turn.wait(timeout):
                    return

    def runner(th):
        local.th, local.first = th, True
        try:
            results[th] = fn(obj)
        finally:
            with turn:
                state["finished"].add(th)
                state["pos"] += 1
                turn.notify_all()
            local.th = None
    mon.use_tool_id(tool, "verif-e3")
    try:
        mon.register_callback(tool, mon.events.INSTRUCTION, on_instruction)
        mon.set_local_events(tool, code, mon.events.INSTRUCTION)
        threads = [threading.Thread(target=runner, args=(i,), daemon=True) for i in range(nthreads)]
        for t in threads:
            t.start()
        for t in threads:
            t.join(timeout)
    finally:
        mon.set_local_events(tool, code, 0)
        mon.register_callback(tool, mon.events.INSTRUCTION, None)
        mon.free_tool_id(tool)
    return results
