"""Run ONE obligation (one CrossHair condition) in this process and print a JSON verdict on the last stdout line.

usage: python -m engine.worker <module> <fn-name> <timeout-s> [--witness] [--pre EXPR]... [--per-path S]

Verdict states:
  confirmed  : CrossHair exhausted the path tree; every path satisfied the postcondition (bounded all-values claim)
  refuted    : a counterexample was produced (args in "cex"), to be replayed concretely by the driver
  unknown    : timeout / solver unknown / unexplored paths -> inconclusive
  presat     : "Unable to meet precondition" -> inconclusive (vacuous or every path aborted)
  error      : harness/engine error
"""
import importlib
import inspect
import json
import os
import sys
import time
import traceback
from dataclasses import replace


def _site_of_stack():
    """innermost frame that is neither CrossHair nor stdlib: where the harness/repo code forced a concrete value"""
    f = sys._getframe(2)
    while f is not None:
        fn = f.f_code.co_filename
        if "/crosshair/" not in fn and "/lib/python3" not in fn and not fn.startswith("<"):
            return f"{os.path.relpath(fn, '/')}:{f.f_lineno}"
        f = f.f_back
    return "engine-internal"


def main(argv):
    modname, fnname, timeout = argv[0], argv[1], float(argv[2])
    witness = "--witness" in argv
    extra_pre = [argv[i + 1] for i, a in enumerate(argv) if a == "--pre"]
    per_path = 40.0   # solver timeout per query = per_path/2; CrossHair's default sqrt(T) cuts 64-bit div/mod queries short
    if "--per-path" in argv:
        per_path = float(argv[argv.index("--per-path") + 1])
    t0 = time.time()
    out = {"module": modname, "fn": fnname, "witness": witness, "extra_pre": extra_pre, "timeout": timeout}
    if "--native" in argv:
        return native(modname, fnname, out, t0)
    try:
        import engine.chx as chx
        from crosshair.core import analyze_calltree, AnalysisOptionSet, DEFAULT_OPTIONS
        from crosshair.core_and_libs import standalone_statespace  # noqa: F401  (loads libimpl registrations)
        from crosshair.condition_parser import condition_parser, ConditionExpr, PRECONDITION, compile_expr
        from crosshair.fnutil import FunctionInfo
        from crosshair.statespace import StateSpace, VerificationStatus, MessageType
        from crosshair.options import AnalysisKind
        from crosshair.util import set_debug
        import time as _t

        chx.WITNESS = witness
        if os.environ.get("VERIF_Z3_PARAMS"):
            import z3 as _z3
            for kv in os.environ["VERIF_Z3_PARAMS"].split(","):
                k, v = kv.split("=")
                _z3.set_param(k, int(v) if v.isdigit() else (v == "true" if v in ("true", "false") else v))
        mod = importlib.import_module(modname)
        fn = getattr(mod, fnname)

        # ---- instrumentation: path count, realisation audit, solver time
        stats = {"paths": 0, "realizations": 0, "sites": {}, "solver_s": 0.0, "solver_calls": 0}
        _init = StateSpace.__init__

        def init(self, *a, **k):
            stats["paths"] += 1
            return _init(self, *a, **k)

        StateSpace.__init__ = init
        _fmv = StateSpace.find_model_value

        def fmv(self, expr, *a, **k):
            if not self.is_detached:
                stats["realizations"] += 1
                s = _site_of_stack()
                stats["sites"][s] = stats["sites"].get(s, 0) + 1
            return _fmv(self, expr, *a, **k)

        StateSpace.find_model_value = fmv
        import crosshair.statespace as _ss

        _sat = _ss.solver_is_sat

        def sat(solver, *a):
            t = _t.perf_counter()
            try:
                full_ms = _ss.context_statespace().smt_timeout or int(per_path * 500)
            except Exception:  # noqa
                full_ms = int(per_path * 500)
            try:
                # stage 1: the incremental solver with a short leash (queries normally take milliseconds)
                solver.set(timeout=min(5000, full_ms))
                try:
                    return _sat(solver, *a)
                finally:
                    solver.set(timeout=full_ms)
            except _ss.UnknownSatisfiability:
                # z3's incremental solver (push/pop with learned state) occasionally gets stuck on a query that a fresh solver
                # decides in milliseconds. stage 2: a fresh solver with the same assertions and the full per-query timeout;
                # stage 3: the incremental solver again with the full timeout (the behaviour before the stages were added)
                import z3 as _z3
                fresh = _z3.Solver()
                fresh.set("timeout", full_ms)
                fresh.add(*solver.assertions())
                r = fresh.check(*a)
                stats["fresh_solver_retries"] = stats.get("fresh_solver_retries", 0) + 1
                if r == _z3.unknown:
                    try:
                        r3 = _sat(solver, *a)
                        stats["stage3_decided"] = stats.get("stage3_decided", 0) + 1
                        return r3
                    except _ss.UnknownSatisfiability:
                        pass
                    u = stats.setdefault("unknowns", [])
                    if len(u) < 8:
                        u.append({"exc": "UnknownSatisfiability", "reason": fresh.reason_unknown(), "fresh": True,
                                  "query_s": round(_t.perf_counter() - t, 2), "at_s": round(time.time() - t0, 1)})
                    raise
                stats["fresh_solver_decided"] = stats.get("fresh_solver_decided", 0) + 1
                return r == _z3.sat
            except BaseException as e:  # noqa  (audit: why a path ended without verdict)
                u = stats.setdefault("unknowns", [])
                if len(u) < 8:
                    try:
                        why = solver.reason_unknown()
                    except Exception:  # noqa
                        why = "?"
                    u.append({"exc": type(e).__name__, "reason": why, "query_s": round(_t.perf_counter() - t, 2),
                              "at_s": round(time.time() - t0, 1)})
                    dump = os.environ.get("VERIF_DUMP_UNKNOWN")
                    if dump:
                        with open("%s.%d.%d.smt2" % (dump, os.getpid(), len(u)), "w") as fh:
                            fh.write(solver.sexpr() + "\n" + "".join("(assert %s)\n" % x.sexpr() for x in a) + "(check-sat)\n")
                raise
            finally:
                stats["solver_s"] += _t.perf_counter() - t
                stats["solver_calls"] += 1

        _ss.solver_is_sat = sat
        _detach = StateSpace.detach_path

        def detach(self, currently_handling=None, *a, **k):
            if currently_handling is not None and type(currently_handling).__name__ in ("NotDeterministic", "PathTimeout",
                                                                                           "UnknownSatisfiability"):
                d = stats.setdefault("undecided_paths", {})
                key = type(currently_handling).__name__
                d[key] = d.get(key, 0) + 1
            return _detach(self, currently_handling, *a, **k)

        StateSpace.detach_path = detach

        options = DEFAULT_OPTIONS.overlay(
            AnalysisOptionSet(
                per_condition_timeout=timeout,
                analysis_kind=[AnalysisKind.PEP316],
                report_all=True,
                max_uninteresting_iterations=sys.maxsize,
                **({"per_path_timeout": per_path} if per_path else {}),
            )
        )
        cex = {}

        def describe(bound, retval, overrides):
            try:
                cex["args"] = {k: v for k, v in bound.arguments.items()}
                cex["repr"] = {k: repr(v) for k, v in bound.arguments.items()}
            except Exception as e:  # pragma: no cover
                cex["repr_error"] = repr(e)
            return (fnname + "(" + ", ".join(f"{k}={v!r}" for k, v in bound.arguments.items()) + ")", repr(retval))

        with condition_parser(options.analysis_kind) as parser:
            conditions = parser.get_fn_conditions(FunctionInfo.from_fn(fn))
            if conditions is None or not conditions.post:
                raise RuntimeError("no conditions on " + fnname)
            syn = list(conditions.syntax_messages())
            if syn:
                raise RuntimeError("contract syntax: " + "; ".join(m.message for m in syn))
            pre = list(conditions.pre)
            for src in extra_pre:
                code = compile_expr(src)
                g = fn.__globals__
                pre.append(
                    ConditionExpr(PRECONDITION, (lambda b, code=code, g=g: eval(code, g, dict(b))), "<extra>", 0, src)
                )
            conditions = replace(conditions, pre=pre, post=[conditions.post[0]], counterexample_description_maker=describe)
            # CrossHair occasionally ends a refuting path of the E3b generator harnesses with "NotDeterministic" instead of the
            # counterexample (observed in about every second run on one seeded change; cause not found - suspended generators of abandoned paths are closed in stmt.run, which lowered the rate); such a run carries no verdict and is repeated
            for attempt in range(12):
                cex.clear()
                options.deadline = _t.process_time() + timeout
                analysis = analyze_calltree(options, conditions)
                if "args" in cex or not any("NotDeterministic" in (m.message or "") for m in analysis.messages):
                    break
                out["nondeterministic_retries"] = attempt + 1
        st = analysis.verification_status
        msgs = analysis.messages
        out["messages"] = [f"{m.state.name}: {m.message}" for m in msgs]
        if any(m.state == MessageType.PRE_UNSAT for m in msgs):
            out["state"] = "presat"
        elif st == VerificationStatus.CONFIRMED:
            out["state"] = "confirmed"
        elif st == VerificationStatus.REFUTED:
            out["state"] = "refuted"
            out["cex"] = cex.get("repr")
            out["traceback"] = [m.traceback for m in msgs if m.traceback][:1]
        else:
            out["state"] = "unknown"
        out["confirmed_paths"] = analysis.num_confirmed_paths
        out.update(stats)
        out["solver_s"] = round(stats["solver_s"], 3)
        # concrete replay of a counterexample in this process, outside the tracer, against the real code
        if out["state"] == "refuted" and not witness and "args" in cex:
            try:
                chx.WITNESS = False
                r = fn(**cex["args"])
                out["replay"] = {"returned": repr(r), "reproduced": (r is False)}
            except Exception as e:
                # an exception escaping the harness counts as a violation only if it was raised inside the library
                # (innermost frame under the repository); raised in /verif code it is a harness bug -> error
                tb = e.__traceback__
                while tb.tb_next is not None:
                    tb = tb.tb_next
                inner = tb.tb_frame.f_code.co_filename
                in_lib = os.path.realpath(inner).startswith(os.path.realpath(os.environ.get("VERIF_REPO", "/repo")) + os.sep)
                out["replay"] = {"raised": repr(e), "reproduced": in_lib, "raised_in": inner,
                                 "tb": traceback.format_exc()[-1500:]}
    except BaseException as e:  # noqa
        out["state"] = "error"
        out["error"] = repr(e)
        out["tb"] = traceback.format_exc()[-3000:]
    out["wall_s"] = round(time.time() - t0, 2)
    print("\n@@VERDICT@@" + json.dumps(out, default=repr))


def native(modname, fnname, out, t0):
    """native obligation: a plain function that discharges its own solver queries (z3 / exhaustive finite check) and
    returns {"state": confirmed|refuted|unknown, "cex": {...}, "reproduced": bool, "solver_calls": n, "solver_s": s, "paths": n, "extra": ...}"""
    try:
        mod = importlib.import_module(modname)
        r = getattr(mod, fnname)()
        if isinstance(r, bool):
            r = {"state": "confirmed" if r else "refuted", "reproduced": not r}
        out.update(r)
        if out.get("state") == "refuted":
            out["replay"] = {"reproduced": bool(r.get("reproduced")), "detail": r.get("detail")}
            out["cex"] = {k: repr(v) for k, v in (r.get("cex") or {}).items()}
    except BaseException as e:  # noqa
        out["state"] = "error"
        out["error"] = repr(e)
        out["tb"] = traceback.format_exc()[-3000:]
    out["wall_s"] = round(time.time() - t0, 2)
    print("\n@@VERDICT@@" + json.dumps(out, default=repr))


if __name__ == "__main__":
    main(sys.argv[1:])
