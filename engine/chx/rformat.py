"""f-strings inside `raise` statements and logger calls do not realise symbolic values.

CrossHair formats f"{symbolic_int}" by realising the int, which turns every error path
(`raise ValueError(f"Invalid value {item}")`) into an enumeration of all offending values - an infinite fork.
The text of an exception message / log line is not an observable of any property, so inside the source range of an
`ast.Raise` statement or of an expression statement calling .debug/.info/.warning/.error/.exception/.critical the
symbolic value is rendered as "?" instead. Everywhere else formatting is unchanged (and realises, i.e. enumerates).
"""
import ast
import sys

from crosshair.core import CrossHairValue
from crosshair.libimpl.builtinslib import AnySymbolicStr
from crosshair import opcode_intercept as _oi
from crosshair.tracers import NoTracing

_LOG = {"debug", "info", "warning", "error", "exception", "critical", "log"}
_zones = {}


def _zone_lines(filename):
    z = _zones.get(filename)
    if z is None:
        z = set()
        try:
            tree = ast.parse(open(filename, encoding="utf8").read())
            for node in ast.walk(tree):
                hit = isinstance(node, ast.Raise)
                if isinstance(node, ast.Expr) and isinstance(node.value, ast.Call):
                    f = node.value.func
                    if isinstance(f, ast.Attribute) and f.attr in _LOG:
                        hit = True
                if hit:
                    z.update(range(node.lineno, (node.end_lineno or node.lineno) + 1))
        except Exception:
            pass
        _zones[filename] = z
    return z


def _has_symbolic(v, depth=0):
    if isinstance(v, AnySymbolicStr):
        return False
    if isinstance(v, CrossHairValue):
        return True
    if depth < 2 and isinstance(v, (list, tuple)):
        return any(_has_symbolic(x, depth + 1) for x in v)
    return False


def _opaque(value):
    with NoTracing():
        if not _has_symbolic(value):
            return False
        f = sys._getframe(2)
        while f is not None and "/crosshair/" in f.f_code.co_filename:
            f = f.f_back
        if f is None:
            return False
        return f.f_lineno in _zone_lines(f.f_code.co_filename)


_F = _oi.FormatStashingValue
_str, _fmt, _repr = _F.__str__, _F.__format__, _F.__repr__


def __str__(self):
    if _opaque(self.value):
        self.formatted = "?"
        return ""
    return _str(self)


def __format__(self, fmt):
    if _opaque(self.value):
        self.formatted = "?"
        return ""
    return _fmt(self, fmt)


def __repr__(self):
    if _opaque(self.value):
        self.formatted = "?"
        return ""
    return _repr(self)


_F.__str__, _F.__format__, _F.__repr__ = __str__, __format__, __repr__
