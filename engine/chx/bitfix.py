"""Keep &,|,^ with one concrete operand symbolic in CrossHair (LIA encoding with div/mod by constants)."""
import operator as ops
import z3
from crosshair.libimpl import builtinslib as _b
from crosshair.tracers import NoTracing
from crosshair.statespace import context_statespace

SymbolicInt = _b.SymbolicInt

def _runs(mask):
    s = 0
    out = []
    while mask:
        if mask & 1:
            w = 0
            while mask & 1:
                w += 1; mask >>= 1
            out.append((s, w)); s += w
        else:
            mask >>= 1; s += 1
    return out

def _and_expr(avar, mask):
    """z3 Int expr for (a & mask), mask >= 0 concrete, a any integer."""
    if mask == 0:
        return z3.IntVal(0)
    total = None
    for (s, w) in _runs(mask):
        term = ((avar / (2 ** s)) % (2 ** w)) * (2 ** s)   # z3 '/' on Ints is floor div for positive divisor
        total = term if total is None else total + term
    return total

def _and(op, a, b):
    with NoTracing():
        if isinstance(b, SymbolicInt) and not isinstance(a, SymbolicInt):
            a, b = b, a
        if isinstance(a, SymbolicInt) and not isinstance(b, SymbolicInt):
            b = int(b)
            if b >= 0:
                return SymbolicInt(_and_expr(a.var, b))
            # negative mask: a & b == a - (a & ~b), ~b >= 0
            return SymbolicInt(a.var - _and_expr(a.var, ~b))
        return None

_orig = {}
def _install():
    def and_(op, a: _b.Integral, b: _b.Integral):
        r = _and(op, a, b)
        if r is not None:
            return r
        return op(_b.realize(a), _b.realize(b))
    def or_xor(op, a: _b.Integral, b: _b.Integral):
        with NoTracing():
            x, y = a, b
            if isinstance(y, SymbolicInt) and not isinstance(x, SymbolicInt):
                x, y = y, x
            if isinstance(x, SymbolicInt) and not isinstance(y, SymbolicInt):
                y = int(y)
                if y >= 0:
                    andv = _and_expr(x.var, y)
                else:
                    andv = x.var - _and_expr(x.var, ~y)
                if op is ops.or_:
                    return SymbolicInt(x.var + y - andv)
                return SymbolicInt(x.var + y - 2 * andv)
        return op(_b.realize(a), _b.realize(b))
    _b.setup_binop(and_, {ops.and_})
    _b.setup_binop(or_xor, {ops.or_, ops.xor})
    _b._BIN_OPS.clear()

_install()
