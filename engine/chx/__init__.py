"""E1 extensions for CrossHair 0.0.110 (see DESIGN §2.1). Importing this module installs them.

Each extension is part of the trusted base and is listed in every evidence file:
  structfix : bytes.__add__ tuple/list fix; struct.unpack_from accepts longer buffers; struct.pack/unpack keep `Ns` symbolic
  bitfix    : a & m, a | m, a ^ m with one concrete operand stay symbolic (div/mod encoding)
  rformat   : f-strings in `raise` statements / logger calls render symbolic values as '?' instead of realising them
  noshort   : contract short-circuiting disabled (removes an over-approximation that yields UNKNOWN paths)
  quiet     : logging disabled (log formatting realises symbolic values; logging is not the subject of any property)
"""
import logging as _logging

import crosshair.core_and_libs  # noqa: F401  (registers the stock library models first)

from . import structfix  # noqa: F401
from . import bitfix  # noqa: F401
from . import rformat  # noqa: F401
import crosshair.core as _core

_consider = _core.consider_shortcircuit


def _no_shortcircuit(fn, sig, bound, subconditions, allow_interpretation):
    # registered contracts that replace the body (time.time, random, ...) must still be honoured
    if not allow_interpretation:
        return _consider(fn, sig, bound, subconditions, allow_interpretation)
    return None


_core.consider_shortcircuit = _no_shortcircuit
_logging.disable(_logging.CRITICAL)

TRUSTED_BASE = [
    "CrossHair 0.0.110 symbolic executor + z3 (pinned wheels)",
    "chx.structfix: bytes.__add__ fix, struct.unpack_from/pack/unpack models (self-tested vs CPython by engine.selftest)",
    "chx.bitfix: &,|,^ with a concrete operand as div/mod terms (self-tested vs z3 bit-vectors by engine.selftest)",
    "chx.rformat: symbolic values inside f-strings of raise statements / logger calls render as '?' (message text is no observable)",
    "chx.noshort: contract short-circuiting off",
    "logging disabled",
]

# witness-twin support: obligations end with `return fin(cond)`; in witness mode reaching fin() makes the
# postcondition false, so a REFUTED verdict proves the end of the harness is reachable under its preconditions.
WITNESS = False


def fin(cond):
    if WITNESS:
        return False
    return cond


def pick(seq, k):
    """seq[k] for a symbolic index k over a concrete sequence of non-symbolisable objects (classes, functions):
    an if-chain, so the engine forks one path per element instead of building a symbolic proxy of the element."""
    for i, c in enumerate(seq):
        if k == i:
            return c
    raise IndexError("pick: index out of range")


# CrossHair randomly realises int/float/str arguments up front ("premature realize") as a bug-finding heuristic; it is an
# alternative (ParallelNode) to the symbolic branch, never needed for exhaustion, and burns the time budget: always symbolic.
import crosshair.statespace as _ss

_fork_parallel = _ss.StateSpace.fork_parallel


def _no_premature(self, false_probability, desc=""):
    if desc.startswith("premature realize"):
        false_probability = 1.0
    return _fork_parallel(self, false_probability, desc)


_ss.StateSpace.fork_parallel = _no_premature
