"""Work around crosshair 0.0.110 bug: SymbolicBytes.__add__ concatenates tuple+list."""
from crosshair.libimpl import builtinslib as _b
from crosshair.tracers import NoTracing

def _add(self, other):
    with NoTracing():
        byte_seq = _b.buffer_to_byte_seq(other)
        if byte_seq is other:
            raise TypeError
        if byte_seq is None:
            return self.__ch_realize__().__add__(_b.realize(other))
        inner = self.inner
        if isinstance(inner, tuple) and isinstance(byte_seq, list):
            byte_seq = tuple(byte_seq)
        elif isinstance(inner, list) and isinstance(byte_seq, tuple):
            byte_seq = list(byte_seq)
    retseq = inner + byte_seq
    with NoTracing():
        return _b.SymbolicBytes(retseq)

_b.SymbolicBytes.__add__ = _add

# --- crosshair 0.0.110: struct.unpack_from must accept buffers longer than the format
import struct as _struct
from crosshair.libimpl import structlib as _s
from crosshair.core import register_patch as _rp, realize as _realize
from operator import index as _index

def _unpack_from_fixed(fmt, /, buffer, offset=0):
    _s._check_format_arg(fmt)
    fmt_arg = _realize(fmt)
    with NoTracing():
        size = _struct.calcsize(fmt_arg)
    _s._check_readable_buffer_arg(buffer)
    offset = _index(offset)
    if offset < 0:
        offset += len(buffer)
    if len(buffer) - offset < size:
        raise _struct.error(f"unpack_from requires a buffer of at least {size + offset} bytes")
    return _struct.unpack(fmt_arg, buffer[offset:offset + size])

import crosshair.core as _c
_c._PATCH_REGISTRATIONS[_struct.unpack_from] = _unpack_from_fixed

# --- crosshair 0.0.110: struct.pack realizes symbolic buffers for 's' items; keep them symbolic
_orig_pack = _c._PATCH_REGISTRATIONS[_struct.pack]

def _pack_fixed(fmt, /, *args):
    with NoTracing():
        sym = any(_s._is_symbolic_buffer(a) for a in args)
    if not sym:
        return _orig_pack(fmt, *args)
    with NoTracing():
        fmt_arg = _realize(fmt)
        fmt_s = _s._normalize_format_for_parse(fmt_arg)
        prefix, items = _s._parse_format(fmt_s)
    if prefix in "@":   # native alignment: leave to the original model
        return _orig_pack(fmt, *args)
    out = None
    argi = 0
    for fc, count in items:
        if fc == "x":
            part = b"\x00" * count
        elif fc == "s":
            val = args[argi]; argi += 1
            n = len(val)
            part = val[:count] if n >= count else val + b"\x00" * (count - n)
        elif fc == "p":
            return _orig_pack(fmt, *args)
        else:
            reps = count
            part = None
            for _ in range(reps):
                one = _orig_pack(prefix + fc, args[argi]); argi += 1
                part = one if part is None else part + one
            if part is None:
                part = b""
        out = part if out is None else out + part
    if argi != len(args):
        raise _struct.error(f"pack expected {argi} items for packing (got {len(args)})")
    return out if out is not None else b""

_c._PATCH_REGISTRATIONS[_struct.pack] = _pack_fixed

# --- crosshair 0.0.110: struct.unpack realizes symbolic buffers for 's' items; keep them symbolic
_orig_unpack = _c._PATCH_REGISTRATIONS[_struct.unpack]

def _unpack_fixed(fmt, buffer, /):
    with NoTracing():
        sym = _s._is_symbolic_buffer(buffer)
        if sym:
            fmt_arg = _realize(fmt)
            fmt_s = _s._normalize_format_for_parse(fmt_arg)
            prefix, items = _s._parse_format(fmt_s)
            has_s = any(fc == "s" for fc, _ in items) and prefix not in "@"
    if not sym or not has_s:
        return _orig_unpack(fmt, buffer)
    with NoTracing():
        need = _s._struct_items_total_size(prefix, items)
    if len(buffer) != need:
        raise _struct.error(f"unpack requires a buffer of {need} bytes")
    results = []
    offset = 0
    for fc, count in items:
        with NoTracing():
            size = _s._get_item_size(fc, count, prefix)
        if fc == "s":
            results.append(buffer[offset:offset + size])
            offset += size
        elif fc == "x":
            offset += size
        elif fc == "p":
            return _orig_unpack(fmt, buffer)
        else:
            for _ in range(count):
                with NoTracing():
                    one = _s._get_item_size(fc, 1, prefix)
                results.extend(_orig_unpack(prefix + fc, buffer[offset:offset + one]))
                offset += one
    return tuple(results)

_c._PATCH_REGISTRATIONS[_struct.unpack] = _unpack_fixed
import logging as _logging
_logging.disable(_logging.CRITICAL)

# --- int.to_bytes on symbolic ints: nested quotient chain (b0 = v % 256, v1 = v div 256, b1 = v1 % 256, ...) instead of
# CrossHair's independent (v div 2^(8i)) % 256 terms; same values, but z3 relates the bytes to each other much faster.
from crosshair.libimpl import builtinslib as _bl
from crosshair.core import realize as _rl
_orig_to_bytes = _bl.SymbolicInt.to_bytes


def _to_bytes_nested(self, length=1, byteorder="big", *, signed=False):
    if not isinstance(length, int) or not isinstance(byteorder, str) or not isinstance(signed, bool):
        raise TypeError
    length = _rl(length)
    if signed:
        half = (256 ** length) >> 1
        if self < -half or self >= half:
            raise OverflowError
        if self < 0:
            self = 256 ** length + self
    else:
        if self < 0 or self >= 256 ** length:
            raise OverflowError
    with NoTracing():
        cur = self.var
        arr = []
        for _ in range(length):
            arr.append(_bl.SymbolicInt(cur % 256))
            cur = cur / 256
        if _rl(byteorder) == "big":
            arr.reverse()
        return _bl.SymbolicBytes(arr)


_bl.SymbolicInt.to_bytes = _to_bytes_nested
