"""E2: float range-guard lemmas in z3 FloatingPoint, regenerated from the working tree's source on every run.

CrossHair models Python floats as reals, so binary32/64 rounding, FLT_MAX and overflow are invisible to E1. Here the
range guards of the number classes are extracted from the *source* with `ast` (the `if <test>: raise ValueError` statements
that mention _min/_max, or a `lo <= value <= hi` return), translated to z3 FP terms with the class constants read from
the live classes, and combined with IEEE conversions (RNE double->single as performed by struct.pack('>f')).
Only comparisons, and/or/not, names and attributes are supported: anything else raises Untranslatable -> inconclusive.
"""
import ast
import inspect
import struct
import textwrap
import time

import z3

F32 = z3.Float32()
F64 = z3.Float64()
RNE = z3.RNE()


class Untranslatable(Exception):
    pass


def _guards_of(fn):
    """range guards inside fn as reject conditions (ast exprs): tests of `if <test>: raise ...` mentioning the limits, and the
    negation of `if <test>: return ...` accept-tests (the statement after such an `if` must raise)"""
    src = textwrap.dedent(inspect.getsource(fn))
    tree = ast.parse(src)
    out = []
    for node in ast.walk(tree):
        if isinstance(node, ast.If) and node.body:
            txt = ast.unparse(node.test)
            if not ("_min" in txt or "_max" in txt):
                continue
            if isinstance(node.body[0], ast.Raise):
                out.append(node.test)
            elif isinstance(node.body[0], ast.Return) and not node.orelse:
                out.append(ast.UnaryOp(op=ast.Not(), operand=node.test))
    return out


def _tr(node, env):
    if isinstance(node, ast.BoolOp):
        vals = [_tr(v, env) for v in node.values]
        return z3.Or(*vals) if isinstance(node.op, ast.Or) else z3.And(*vals)
    if isinstance(node, ast.UnaryOp) and isinstance(node.op, ast.Not):
        return z3.Not(_tr(node.operand, env))
    if isinstance(node, ast.Compare):
        parts = []
        left = _val(node.left, env)
        for op, right in zip(node.ops, node.comparators):
            r = _val(right, env)
            if isinstance(op, ast.Lt):
                parts.append(z3.fpLT(left, r))
            elif isinstance(op, ast.LtE):
                parts.append(z3.fpLEQ(left, r))
            elif isinstance(op, ast.Gt):
                parts.append(z3.fpGT(left, r))
            elif isinstance(op, ast.GtE):
                parts.append(z3.fpGEQ(left, r))
            else:
                raise Untranslatable(ast.dump(op))
            left = r
        return z3.And(*parts) if len(parts) > 1 else parts[0]
    raise Untranslatable(ast.unparse(node))


def _val(node, env):
    key = ast.unparse(node)
    if key in env:
        return env[key]
    # any plain local name is the value under test
    if isinstance(node, ast.Name) and "$x" in env:
        return env["$x"]
    raise Untranslatable(key)


def reject_expr(cls, fn, x, consts):
    """z3 Bool: the guard(s) of `fn` reject the Float64 term x. consts maps source text -> python float."""
    env = {k: z3.FPVal(v, F64) for k, v in consts.items()}
    env["$x"] = x
    guards = _guards_of(fn)
    if not guards:
        raise Untranslatable(f"no range guard found in {fn.__qualname__}")
    return z3.Or(*[_tr(g, env) for g in guards]), [ast.unparse(g) for g in guards]


def fp_to_py(model, term, bits):
    """python float and raw bit pattern of FP term in model"""
    v = model.eval(term, model_completion=True)
    bv = model.eval(z3.fpToIEEEBV(term), model_completion=True).as_long()
    if bits == 32:
        return struct.unpack(">f", struct.pack(">I", bv))[0], bv
    return struct.unpack(">d", struct.pack(">Q", bv))[0], bv


class Session:
    def __init__(self):
        self.calls = 0
        self.time = 0.0
        self.log = []

    def check(self, name, *constraints, timeout_ms=120000):
        s = z3.Solver()
        s.set("timeout", timeout_ms)
        s.add(*constraints)
        t = time.perf_counter()
        r = s.check()
        dt = time.perf_counter() - t
        self.calls += 1
        self.time += dt
        self.log.append({"query": name, "result": str(r), "s": round(dt, 3)})
        return str(r), (s.model() if str(r) == "sat" else None)
