"""Obligation driver: expands a property's obligations into jobs, runs them on all cores (one engine.worker process
each), replays counterexamples, applies known_findings.json, prints VIOLATION / KNOWN-FINDING lines, writes evidence.

Exit codes: 0 all obligations discharged (known findings allowed); 1 unlisted violation reproduced;
2 inconclusive (timeout / unknown / vacuous witness); 3 harness error (e.g. counterexample that does not replay).
"""
import argparse
import ast
import concurrent.futures as cf
import hashlib
import importlib
import json
import os
import subprocess
import sys
import time

HERE = os.path.dirname(os.path.dirname(os.path.abspath(__file__)))
REPO = os.environ.get("VERIF_REPO", "/repo")
PY = os.path.join(HERE, ".venv", "bin", "python")


def _env():
    e = dict(os.environ)
    e["PYTHONPATH"] = REPO + os.pathsep + HERE
    e["PYTHONDONTWRITEBYTECODE"] = "1"
    e["PYTHONHASHSEED"] = "0"
    return e


def run_worker(job):
    args = [PY, "-m", "engine.worker", job["module"], job["fn"], str(job["timeout"])]
    if job.get("witness"):
        args.append("--witness")
    if job.get("native"):
        args.append("--native")
    for p in job.get("pre", []):
        args += ["--pre", p]
    if job.get("per_path"):
        args += ["--per-path", str(job["per_path"])]
    t0 = time.time()
    try:
        cp = subprocess.run(args, cwd=HERE, env=_env(), capture_output=True, text=True,
                            timeout=job["timeout"] * 2 + 120)
        out = cp.stdout
        i = out.rfind("@@VERDICT@@")
        if i < 0:
            v = {"state": "error", "error": "no verdict", "stderr": cp.stderr[-2000:], "stdout": out[-500:]}
        else:
            v = json.loads(out[i + len("@@VERDICT@@"):])
    except subprocess.TimeoutExpired:
        v = {"state": "unknown", "error": "hard wall timeout"}
    v["job"] = {k: job[k] for k in job if k not in ("ob",)}
    v["wall_s"] = round(time.time() - t0, 2)
    return v


def load_known():
    p = os.path.join(HERE, "known_findings.json")
    if not os.path.exists(p):
        return {}
    return {f["id"]: f for f in json.load(open(p))["findings"]}


def expand(mod, obs, tier, known, only=None):
    jobs = []
    for ob in obs:
        if tier not in ob.get("tiers", ("quick", "thorough")):
            continue
        if only and ob["name"] not in only:
            continue
        tmo = ob.get("timeout", {}).get(tier, 60) if isinstance(ob.get("timeout"), dict) else ob.get("timeout", 60)
        base = dict(module=mod, fn=ob["fn"], timeout=tmo, ob=ob, obname=ob["name"], native=ob.get("kind") == "native",
                    per_path=ob.get("per_path"))
        open_findings = [f for f in ob.get("findings", []) if known.get(f["id"], {}).get("status") == "open"]
        excl = ["not (" + f["pred"] + ")" for f in open_findings]
        parts = ob.get("parts", {}).get(tier) if isinstance(ob.get("parts"), dict) else ob.get("parts")
        parts = parts or [None]
        for pi, part in enumerate(parts):
            pre = excl + ([part] if part else [])
            jobs.append(dict(base, role="main", pre=pre, part=pi))
        if not base["native"]:
            jobs.append(dict(base, role="witness", witness=True, pre=excl + ([parts[0]] if parts[0] else []),
                             timeout=min(tmo, 120), part=0))
        for f in open_findings:
            jobs.append(dict(base, role="finding", finding=f["id"], pre=[f["pred"]], part=0))
    return jobs


def literal_args(cex):
    out = {}
    for k, v in (cex or {}).items():
        try:
            out[k] = ast.literal_eval(v)
        except Exception:
            out[k] = v
    return out


def write_replay(pid, v):
    os.makedirs(os.path.join(HERE, "replays"), exist_ok=True)
    body = {"property": pid, "module": v["job"]["module"], "fn": v["job"]["fn"], "args": v.get("cex"),
            "message": v.get("messages"), "replay": v.get("replay")}
    h = hashlib.sha1(json.dumps(body, sort_keys=True, default=repr).encode()).hexdigest()[:10]
    path = os.path.join(HERE, "replays", f"{pid}-{v['job']['obname']}-{h}.json")
    json.dump(body, open(path, "w"), indent=1, default=repr)
    return path


def replay_file(path):
    body = json.load(open(path))
    sys.path[:0] = [REPO, HERE]
    import engine.chx  # noqa
    mod = importlib.import_module(body["module"])
    fn = getattr(mod, body["fn"])
    args = literal_args(body["args"])
    import inspect
    try:
        if not inspect.signature(fn).parameters:
            # native obligation (its own z3 queries / enumeration): re-run it, it reports its own counterexample
            r = fn()
            print(f"replay {body['fn']}() -> {str(r)[:400]}")
            ok = not (r is False or (isinstance(r, dict) and r.get("state") == "refuted"))
        else:
            r = fn(**args)
            print(f"replay {body['fn']}({args}) returned {r!r}")
            ok = r is not False
    except Exception as e:
        print(f"replay {body['fn']}({args}) raised {e!r}")
        ok = False
    if not ok:
        print(f"VIOLATION property={body['property']} replay={path}")
        return 1
    print("not reproduced")
    return 0


def main():
    ap = argparse.ArgumentParser()
    ap.add_argument("property", nargs="?")
    ap.add_argument("--tier", default=os.environ.get("VERIF_TIER", "quick"))
    ap.add_argument("--replay")
    ap.add_argument("--only", action="append")
    ap.add_argument("--jobs", type=int, default=int(os.environ.get("VERIF_JOBS", "16")))
    ap.add_argument("--no-evidence", action="store_true")
    a = ap.parse_args()
    if a.replay:
        sys.exit(replay_file(a.replay))
    pid = a.property
    tier = a.tier if a.tier in ("quick", "thorough") else "quick"
    seed = int(os.environ.get("VERIF_SEED", "0") or 0)
    t0 = time.time()
    sys.path[:0] = [REPO, HERE]
    modname = f"obligations.{pid}"
    try:
        mod = importlib.import_module(modname)
    except Exception as e:
        import traceback
        traceback.print_exc()
        print(f"HARNESS-ERROR property={pid} cannot import obligations: {e!r}")
        sys.exit(3)
    known = load_known()
    jobs = expand(modname, mod.OBLIGATIONS, tier, known, a.only)
    # longest first
    order = sorted(range(len(jobs)), key=lambda i: -jobs[i]["timeout"])
    results = [None] * len(jobs)
    with cf.ThreadPoolExecutor(max_workers=a.jobs) as ex:
        futs = {ex.submit(run_worker, jobs[i]): i for i in order}
        for f in cf.as_completed(futs):
            results[futs[f]] = f.result()

    # a main/finding job that ended without verdict (timeout / unknown) gets one more attempt in a fresh process: exploration
    # time varies from run to run (solver state, machine load); a second 'unknown' is reported as inconclusive
    again = [i for i in range(len(jobs)) if results[i].get("state") == "unknown" and jobs[i]["role"] != "witness"
             and not os.environ.get("VERIF_NO_RETRY")]
    if again:
        with cf.ThreadPoolExecutor(max_workers=a.jobs) as ex:
            futs = {ex.submit(run_worker, jobs[i]): i for i in again}
            for f in cf.as_completed(futs):
                first = results[futs[f]]
                results[futs[f]] = f.result()
                results[futs[f]]["retried_after"] = {k: first.get(k) for k in ("state", "paths", "wall_s", "unknowns",
                                                                                "undecided_paths")}

    violations, knowns, inconclusive, errors = [], [], [], []
    per_ob = {}
    for job, v in zip(jobs, results):
        name = job["obname"]
        rec = per_ob.setdefault(name, {"name": name, "fn": job["fn"], "verdicts": [], "ok": True,
                                       "bounds": job["ob"].get("bounds", ""), "functions": job["ob"].get("functions", []),
                                       "outside": job["ob"].get("outside", "")})
        st = v.get("state")
        short = {"role": job["role"], "part": job.get("part"), "pre": job.get("pre"), "state": st,
                 "paths": v.get("paths"), "confirmed_paths": v.get("confirmed_paths"),
                 "realizations": v.get("realizations"), "solver_calls": v.get("solver_calls"),
                 "solver_s": v.get("solver_s"), "wall_s": v.get("wall_s"), "cex": v.get("cex"),
                 "messages": v.get("messages"), "extra": v.get("extra")}
        for k in ("fresh_solver_retries", "fresh_solver_decided", "undecided_paths", "unknowns", "retried_after"):
            if v.get(k):
                short[k] = v[k]
        rec["verdicts"].append(short)
        if st == "error":
            errors.append((name, v.get("error"), v.get("tb") or v.get("stderr")))
            rec["ok"] = False
            continue
        if job["role"] == "witness":
            if st != "refuted":
                inconclusive.append((name, f"witness twin not reachable ({st})"))
                rec["ok"] = False
            continue
        if job["role"] == "finding":
            f = known[job["finding"]]
            if st == "refuted" and v.get("replay", {}).get("reproduced"):
                knowns.append((job["finding"], f, v))
            elif st == "refuted":
                errors.append((name, "known-finding counterexample does not replay", v.get("replay")))
                rec["ok"] = False
            elif st == "confirmed":
                short["note"] = "listed finding no longer reproduces"
            else:
                short["note"] = "finding class inconclusive (does not affect the verdict outside the class)"
            continue
        # main
        if st == "confirmed":
            continue
        rec["ok"] = False
        if st == "refuted":
            if v.get("replay", {}).get("reproduced"):
                violations.append((name, v, write_replay(pid, v)))
            else:
                errors.append((name, "counterexample does not replay on the real code (engine/model artefact)",
                               {"cex": v.get("cex"), "messages": v.get("messages"), "replay": v.get("replay")}))
        else:
            inconclusive.append((name, f"{st}: {v.get('messages') or v.get('error')}"))

    for fid, f, v in knowns:
        print(f"KNOWN-FINDING: property={pid} {fid}: {f['what']} [reproduced with {v.get('cex')}]")
    for name, v, path in violations:
        print(f"VIOLATION property={pid} replay={path}")
        print(f"  obligation={name} counterexample={v.get('cex')} {v.get('messages')}")
    for name, why in inconclusive:
        print(f"INCONCLUSIVE property={pid} obligation={name}: {why}")
    for name, why, detail in errors:
        print(f"HARNESS-ERROR property={pid} obligation={name}: {why}\n{detail}")

    wall = time.time() - t0
    if not a.no_evidence and not a.only:
        write_evidence(pid, tier, seed, mod, jobs, results, per_ob, violations, knowns, inconclusive, errors, wall)
    n_ob = len(per_ob)
    n_ok = sum(1 for r in per_ob.values() if r["ok"])
    print(f"{pid} tier={tier}: obligations {n_ok}/{n_ob} discharged, jobs={len(jobs)}, "
          f"known-findings={len(knowns)}, violations={len(violations)}, inconclusive={len(inconclusive)}, "
          f"errors={len(errors)}, wall={wall:.1f}s")
    if violations:
        sys.exit(1)
    if errors:
        sys.exit(3)
    if inconclusive:
        sys.exit(2)
    sys.exit(0)


def write_evidence(pid, tier, seed, mod, jobs, results, per_ob, violations, knowns, inconclusive, errors, wall):
    import engine.chx as chx
    paths = sum((v.get("paths") or 0) for v in results)
    solver_calls = sum((v.get("solver_calls") or 0) for v in results)
    solver_s = sum((v.get("solver_s") or 0) for v in results)
    replays = sum(1 for v in results if v.get("replay")) + sum(
        1 for j, v in zip(jobs, results) if j["role"] == "witness" and v.get("state") == "refuted")
    samples = []
    for rec in per_ob.values():
        samples.append({
            "obligation": rec["name"], "harness": f"obligations/{pid}.py::{rec['fn']}",
            "functions_encoded": rec["functions"], "bounds": rec["bounds"], "outside_claim": rec["outside"],
            "discharged": rec["ok"],
            "runs": [{k: w for k, w in vd.items() if w not in (None, [], "")} for vd in rec["verdicts"]],
        })
    n_ob = len(per_ob)
    n_ok = sum(1 for r in per_ob.values() if r["ok"])
    ev = {
        "property_id": pid, "tier": tier, "seed": seed, "level": "model_checking",
        "coverage": {
            "states": max(paths, 1), "transitions": max(solver_calls, 1),
            "traces_validated_against_impl": replays,
            "samples": samples,
            "obligations": n_ob, "discharged": n_ok,
            "checker_cmd": f"./check {pid} --tier {tier}",
            "trusted_base": chx.TRUSTED_BASE + list(getattr(mod, "TRUSTED", [])),
            "explanation": "bounded symbolic execution of the real secsgem code objects (CrossHair proxies + z3) and direct z3 "
                           "queries generated from the working tree; 'states' = symbolic paths (path-condition classes) explored "
                           "to exhaustion, 'transitions' = SMT satisfiability queries discharged, "
                           "'traces_validated_against_impl' = solver models (counterexamples and reachability witnesses) replayed "
                           "concretely against the unmodified code. Each sample is one obligation with its bounds, the functions "
                           "encoded and the per-run verdict; 'confirmed' means the path tree was exhausted with every path "
                           "satisfying the assertion, for all values within the stated bounds.",
            "solver_time_s": round(solver_s, 2), "jobs": len(jobs),
            "known_findings_reproduced": [k[0] for k in knowns],
            "inconclusive": [f"{n}: {w}" for n, w in inconclusive], "harness_errors": [f"{n}: {w}" for n, w, _ in errors],
            "exhaustive": False,
        },
        "assumptions": list(getattr(mod, "ASSUMPTIONS", [])),
        "wall_s": round(wall, 2), "violations": len(violations),
    }
    os.makedirs(os.path.join(HERE, "evidence"), exist_ok=True)
    json.dump(ev, open(os.path.join(HERE, "evidence", f"{pid}.json"), "w"), indent=1, default=repr)


if __name__ == "__main__":
    main()
