import sys, threading, time, os
import secsgem.hsms, secsgem.common
from secsgem.common.tcp_server_connection import TcpServerConnection
res = []
for delay in (0.05, 0.7, 1.3):
    s = secsgem.hsms.HsmsSettings(connect_mode=secsgem.hsms.HsmsConnectMode.PASSIVE, address="127.0.0.1", port=50000 + int(delay * 100))
    c = TcpServerConnection(s)
    c.enable()
    time.sleep(delay)
    done = threading.Event()
    t = threading.Thread(target=lambda: (c.disable(), done.set()), daemon=True)
    t.start()
    ok = done.wait(5.0)
    res.append((delay, ok))
    print("listening for %.2f s, then disable(): %s" % (delay, "returned" if ok else "DID NOT RETURN within 5 s"))
    sys.stdout.flush()
os._exit(0 if all(ok for _, ok in res) else 1)
