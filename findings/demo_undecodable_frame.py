import sys, time
import secsgem.hsms, secsgem.common
class Conn(secsgem.common.Connection):
    def __init__(self, s): super().__init__(s); self.out=[]
    def enable(self): pass
    def disable(self): pass
    def send_data(self, d): self.out.append(bytes(d)); return True
class S(secsgem.hsms.HsmsSettings):
    def create_connection(self): return self._c
s=S(connect_mode=secsgem.hsms.HsmsConnectMode.PASSIVE); s._c=Conn(s)
p=secsgem.hsms.HsmsProtocol(s); p._connection
s._c.on_connected({"source": s._c})
bad=bytes([0,0,0,10, 0xff,0xff,0,0,0,10, 0,0,0,1])       # SType 10: undefined
lt=bytes([0,0,0,10, 0xff,0xff,0,0,0,5, 0,0,0,7])          # Linktest.req
s._c.on_data({"source": s._c, "data": bad+lt})
time.sleep(1.0)
rsp=[o for o in s._c.out if len(o)==14 and o[9]==6 and o[10:]==bytes([0,0,0,7])]
print("Linktest.rsp:", len(rsp))
sys.exit(0 if len(rsp)==1 else 1)
