#!/usr/bin/env python3
"""Regenerates MANIFEST.json from the table below (keeps it schema-valid). Run: python3 gen_manifest.py"""
import json

TECH = "bounded symbolic execution of the real code (CrossHair 0.0.110 + z3) and generated z3 queries; solver verdict over all values within stated bounds"

# property id -> (level text, level note, design_ref)
CLAIMED = {
    "C01": ("Every obligation executes the real variables classes symbolically: item headers for every length 0..2^24-1 and all 15 "
            "classes, integer items over their full width (lists <= 3), text/binary/boolean payloads over all byte values across the "
            "255/256 (and for Binary 65535/65536) boundaries, nested Array/List trees, fresh-byte decode incl. decoding into used "
            "objects; F4/F8 range guards as z3 FloatingPoint lemmas over every finite binary32/64; z3 proves the reference "
            "round-trips. Holds for all values inside the bounds; nothing is claimed outside them.",
            "Trusted: CrossHair models + the chx patches (struct, &|^, raise-formatting), z3, the E5 reference oracle (oracles/refe5.py), "
            "CPython struct.pack float rounding. Outside: symbolic payload parts > 3 elements, nesting depth > 3 / width > 2, "
            "String at 65535/65536 and everything at 16 MiB only concretely; JIS-8 by exhaustive table enumeration (finite, no solver).",
            "DESIGN.md §3 C01"),
}

CLAIMED.update({
    "C04": ("HsmsHeader/HsmsBlock/HsmsMessage codecs are executed on all 2^80 header byte strings and on bodies with symbolic tails "
            "across the length-field byte boundaries and compared with an independent E37 frame reference; segmentation independence is "
            "decided as an inductive step on the real receive path (Protocol._on_connection_data_received -> ByteQueue -> "
            "HsmsProtocol._process_received_data): from every buffer state 'first j bytes of the pending frame' and every next segment "
            "length m, exactly the frames completed by the segment are queued, in order, field-equal, and the buffer again holds exactly "
            "the undelivered prefix. One step from every invariant state covers every partition of every frame sequence. undecodable_frame: "
            "a frame with any undefined SType or a too small length field in front of a well-formed frame, at every cut, does not hold "
            "the well-formed frame back.",
            "Trusted: CrossHair + chx patches, z3, oracles/refe37.py, the Park stub for Condition.wait_for (a blocked receiver = re-entry; "
            "justified by the asserted 'nothing consumed before the park'), dispatcher replaced by a recording sink. Outside: bodies > 2-3 "
            "symbolic bytes, segments completing > 2 frames, real thread races between append and the receiver thread.",
            "DESIGN.md §3 C04"),
    "C10": ("TcpConnection.send_data and HsmsProtocol._process_send_queue are executed against a socket that is only its documented "
            "contract: send() accepts any 1..len bytes, or raises EWOULDBLOCK / another OSError, in any order (symbolic outcome script). "
            "Success must imply that the socket accepted exactly the bytes of the send, once, in order; failure is only allowed after a "
            "real socket error; queued blocks resolve True/False accordingly. The receiver's pacing is subsumed by the nondeterministic "
            "accepted count.",
            "Trusted: the socket contract stub rigs/sock.py (select always reports writable), CrossHair + chx patches, log formatting "
            "stubbed. Outside: data > 6 bytes / scripts > 4 outcomes (the loop does not depend on size), kernel behaviour beyond the "
            "send() contract, the real 1 MiB packet size (instance attribute lowered to 1..3).",
            "DESIGN.md §3 C10"),
    "C16": ("SecsIHeader/SecsIBlock codecs on all header field values / byte strings against an independent E4 reference (checksum = "
            "byte sum); every single-byte corruption (symbolic position and value) of blocks with symbolic header and data is shown to be "
            "rejected; Message._split_blocks for bodies around every 244 boundary (thorough: every length 0..733) and concretely at the "
            "32767-block limit; Protocol._add_message_block for two interleaved transactions in every merge order.",
            "Trusted: CrossHair + chx patches, oracles/refe4.py. Header bytes are covered field-wise in the checksum obligations (bytes 0..5 "
            "all values | system bytes all values; all 80 bits at once times out). Outside: > 2 data bytes in corruption, > 2 concurrent "
            "transactions, multi-byte corruption.",
            "DESIGN.md §3 C16"),
})

CLAIMED.update({
    "C05": ("One inductive step of the real HsmsProtocol from every session state: each control SType and data messages with all 2^32 "
            "system bytes, session ids, status bytes, the closing flag and an optional open transaction are dispatched through "
            "Protocol._dispatch_block on a rig with a recording connection; next state, the exact bytes of the single response "
            "(Select/Deselect/Linktest.rsp or Reject.req with the request's system bytes), delivery / non-delivery and Reject(reason 4) "
            "for data while not selected are compared with an E37 table. Connect/disconnect events incl. the accept-thread "
            "interleaving (a Select.req dispatched at the moment the dispatcher starts) are order obligations on _on_connected.",
            "Trusted: CrossHair + chx, oracles/refe37.py and the E37 table in obligations/C05.py; session state constructed directly "
            "(active flags per the C18 invariant); protocol thread replaced by an inline sender, Thread/Timer by recording stubs. "
            "Outside: T6/T7/T8 timers, undefined STypes, messages with bodies (C08). Open finding: inbound Separate.req is ignored.",
            "DESIGN.md §3 C05"),
})

CLAIMED.update({
    "C18": ("Sequential part, decided as inductive steps on the real engine: (a) the three shipped machines (control machine in all "
            "4x2 configurations) from every state with active flags == ancestors, every transition name and an unknown name; (b) "
            "generated machines - all forests over 4 (thorough 5) states with solver-chosen parent pointers, any current state, a "
            "transition and its reverse: refused requests raise and change nothing, allowed ones end at the destination with active == "
            "ancestors(current) and exactly the leave/enter/called events of the states exited/entered; (c) a follow-up transition "
            "requested from inside an enter handler, allowed or refused (refusal swallowed by the handler or propagating); per state the "
            "enter/leave events strictly alternate and agree with the final flags. Three defects found with these obligations (uneven "
            "depth below a common ancestor; nested request while a parent is still to be entered; pending child never entered / left "
            "without being entered) were repaired in /repo; the obligations now hold without exclusions for all forests. (d) two "
            "requests made concurrently (E3b): the method's current source is rewritten into a statement-stepping generator, two logical "
            "threads run it on the real objects under a symbolic schedule (first thread, two preemption positions), a lock found in "
            "the source is modelled; the outcome must equal one of the two serial orders of the real method. The missing mutual "
            "exclusion found this way was repaired in /repo (57959a5).",
            "Trusted: CrossHair + chx; pre-states constructed directly; for the concurrent clause the source-to-generator rewrite of "
            "engine/stmt (validated on every path against the un-rewritten method, counterexamples replayed on real threads). "
            "Concurrent clause bounds: 2 threads, <= 2 preemptions at any statement boundary of _perform_transition, callees atomic; "
            "NOT covered: switches inside State.activate/deactivate/handlers, 3+ threads. Outside: > 5 states, follow-ups from "
            "leave/called handlers.",
            "DESIGN.md §3 C18"),
})

CLAIMED.update({
    "C12": ("Inductive steps on the real GemEquipmentHandler: from every pre-state satisfying the invariant J (every linked report "
            "exists, link lists duplicate-free and non-empty) built from symbolic report ids, link shapes, enabled flags and variable "
            "values, one real _on_s02f33 / _on_s02f35 / _on_s02f37 request with symbolic ids (known, unknown, repeated, empty lists, "
            "delete-one / delete-all) is compared with an E5 reference model: acknowledge code class, refused => nothing changed, "
            "accepted => exactly the model's effect, J preserved, and the following S6F15 reply and triggered S6F11 contain exactly "
            "the linked reports in link order with the current values. One step from every J-state covers histories of any length.",
            "Trusted: CrossHair + chx, the reference model inside obligations/C12.py, SimpleDict substitution for id-keyed tables, "
            "requests delivered as structured function objects (codec = C03), inline sender thread. Bounds: <= 2 reports, <= 2 links, "
            "<= 2 entries per request, 8-bit numeric ids; quick runs 8 slices per request type, thorough all 180. Duplicate ids inside "
            "one request may be refused or applied duplicate-free (both readings accepted).",
            "DESIGN.md §3 C12"),
})

CLAIMED.update({
    "C14": ("As C01 on the Item API: encode_item_header for every length, ItemU1..I8 (scalar/list forms, unbounded symbolic ints), "
            "ItemA/ItemB/ItemBOOLEAN constructor forms with symbolic contents across the 255/256 boundary, nested ItemL trees, typed "
            "and generic Item.decode on fresh symbolic payload bytes - all compared byte-for-byte with the E5 reference and, "
            "differentially, with the variables API; Item.from_value(int) over [-2^63-2, 2^64+1] must choose the narrowest unsigned/"
            "signed width and keep the value; ItemF4/ItemF8 bounds as z3 FloatingPoint lemmas over every finite binary32/64.",
            "Trusted: CrossHair + chx, z3, oracles/refe5.py. Outside: symbolic payload parts > 3 elements, nesting > 3, ItemJ only via the "
            "codec table of C01, non-latin-1 text (the type cannot represent it), float text.",
            "DESIGN.md §3 C14"),
})

CLAIMED.update({
    "C02": ("The library decoders (ANYVALUE/Dynamic, typed variables, Item.decode) run on symbolic byte strings; the precondition is "
            "that an independent E5 reference decoder (oracles/refe5.decode: 1..3 length bytes of any magnitude, all format codes, "
            "nesting) accepts the string completely. Decoded value, consumed length and re-encoding (== canonical form) are compared "
            "for every such string of length 2..5 (plus 6-byte lists; thorough: all 6-byte strings and 7-byte lists), non-minimal "
            "length bytes for every typed class, and Dynamic with restricted / empty type lists. Every finite IEEE float payload is "
            "covered by the z3 FloatingPoint lemma on the range guards (floats inside the symbolic strings are excluded there).",
            "Trusted: CrossHair + chx, z3, oracles/refe5.py. Format bytes are substituted by the concrete value they are known to have on "
            "each path (Dynamic.decode indexes a dict of classes; path-equivalent). Outside: longer encodings, JIS-8 through Dynamic.",
            "DESIGN.md §3 C02"),
})

CLAIMED.update({
    "C15": ("Round trip Item.from_sml(item.to_sml()) on the real tokenizer/parser: ItemA with symbolic printable characters (quotes, "
            "brackets, spaces) and one arbitrary character per string, strings inside nested lists, every 1- and 2-byte ItemJ payload; "
            "termination/rejection: every text of 1..4 (thorough 5) symbols over the SML token alphabet either raises or returns an "
            "item only if a reference bracket scanner sees the first item closed and only known type names; every proper prefix of "
            "generated valid SML is rejected.",
            "Trusted: CrossHair + chx. Numbers/binary/boolean items are checked on boundary representatives only (bounded enumeration): "
            "decimal/hex text of a symbolic int is concretised by the engine. A path that exceeds the per-path budget is inconclusive, "
            "never a pass. Outside: texts > 5 symbols, > 1 non-printable character per symbolic string, float text beyond samples.",
            "DESIGN.md §3 C15"),
})

CLAIMED.update({
    "C11": ("One inductive step of the real GemEquipmentHandler from every stable control state x remembered LOCAL/REMOTE x "
            "communication established or not: operator online/offline/local/remote, host S1F15/S1F17 (all system bytes), the host "
            "answering the attempt-online probe with S1F2 / something else / nothing, and the enabled flags of the three control-state "
            "collection events. Next state, OFLACK/ONLACK, remembered sub-state, the S1F4 value of SVID 1002 and exactly the S6F11 CEIDs "
            "emitted are compared with an E30 table; all 4x2 start-up configurations are checked from __init__. The control space is "
            "finite and fully explored.",
            "Trusted: CrossHair + chx, the E30 table in obligations/C11.py; control/communication state constructed directly; inline sender "
            "thread; scripted probe reply. Outside: link loss in the middle of a control transition.",
            "DESIGN.md §3 C11"),
    "C19": ("functions.generate(text) on definitions generated from the documented grammar: 10 trees (items, open arrays, records, named "
            "and unnamed nested lists up to depth 5), item names rotated through 8 catalogue names, gaps chosen among 10 whitespace/"
            "comment texts at rotating positions; shape, key order and item classes compared with a reference written from "
            "docs/firststeps/sfdl.md; history independence (second reading of a flattened text judged on its own); every text of 1..4 "
            "(thorough 5) symbols over the token alphabet and every proper prefix / unknown-name mutation of the generated "
            "definitions must be rejected unless a reference tokenizer sees a closed first item with known names.",
            "Trusted: CrossHair + chx, the reference tokenizer/shape rules in obligations/C19.py. The tokenizer reads through io.StringIO, "
            "which the engine concretises per character: the solver steers choice indices (bounded exhaustive exploration), characters "
            "are not symbolic. Open finding: named open list of a single data item (documented S2F23 example) becomes a record.",
            "DESIGN.md §3 C19"),
})

CLAIMED.update({
    "C07": ("Inductive steps of the real GemHandler (host and equipment role) from every communication state: enable, disable, link "
            "selected, link lost (the protocol's disconnected event), inbound S1F13, S1F14 with every COMMACK byte and matching / "
            "non-matching system bytes, another primary, WAIT_CRA timer expiry and delay timer expiry, with a symbolic establish-"
            "communications delay. The state reached must lie in the set an E30 table allows; COMMUNICATING only via S1F14/COMMACK 0 "
            "for the outstanding S1F13 or by answering S1F13 with COMMACK 0; exactly one S1F13 on entering WAIT_CRA; the delay timer "
            "has exactly the configured interval; no user callback runs unless COMMUNICATING; waitfor_communicating(0) and the pending "
            "virtual timers agree with the state after one and after two steps.",
            "Trusted: CrossHair + chx, the E30 table in obligations/C07.py; state constructed directly, timers virtual. Outside: wall-clock "
            "behaviour of threading.Timer, timer-thread vs dispatcher races. Open finding: S1F14 with stale system bytes is accepted.",
            "DESIGN.md §3 C07"),
})

CLAIMED.update({
    "C13": ("Steps on the real equipment handler with tables of two user entries (symbolic ids, values, limits, flags): S1F3/S1F11 and "
            "S2F13/S2F29 with id lists of 0..3 known / unknown / repeated ids must answer exactly the requested items in request order "
            "(empty item for unknown ids); S2F15 with 1..3 entries and symbolic values around the limits applies all or nothing and "
            "never leaves a constant outside [min, max]; S5F5/S5F7 list the requested / enabled alarms with their set state; set_alarm, "
            "clear_alarm and S5F3 from every enabled/set combination send S5F1 exactly for state changes of enabled alarms. The float "
            "range guard of S2F15 is translated from the source to a z3 FloatingPoint query (NaN, infinities, every double).",
            "Trusted: CrossHair + chx, z3, the reference model in obligations/C13.py; tables replaced by SimpleDicts with the user entries "
            "only; requests as structured function objects. Outside: text ids, > 3 ids per request, built-in CLOCK value, S5F5 with "
            "unknown ids (not promised by the property), ALED bytes other than 0x00/0x80.",
            "DESIGN.md §3 C13"),
})

CLAIMED.update({
    "C06": ("Sequential steps on the real protocol code: ids issued by get_next_system_counter are distinct and wrap at 2^32 for any "
            "start value; inbound data messages are routed to exactly the outstanding request with equal system bytes, otherwise "
            "delivered once and in arrival order (HSMS and SECS-I, arbitrary 32-bit system bytes); send_and_waitfor_response "
            "registers its queue before the bytes leave and removes it after reply / send failure / timeout / foreign reply, and a "
            "second requester never receives anything left over from the first transaction; ProtocolDispatcher start/stop sequences "
            "(all of length <= 4, real threads) never leave more than one live consumer.",
            "Concurrency: the live bytecode of get_next_system_counter is executed symbolically for 2 threads with the schedule as "
            "a z3 variable (E3): no schedule returns equal ids; a model is replayed on real threads. "
            "Trusted: CrossHair + chx, z3, engine/ilv (bytecode subset, switch between any two bytecodes); single-threaded rig "
            "(inline sender), T3 = 0 for timeouts. Receiver/dispatcher hand-over (E3b): the real _dispatcher_thread_function / "
            "_receiver_thread_function run as statement-stepping generators (regenerated from source) against queue_block / "
            "trigger_receiver under a symbolic schedule (first thread, <= 3 preemption positions): at rest every queued block was "
            "delivered once and in order and no trigger was lost; real Event/Queue objects, their methods atomic. NOT covered: "
            "preemption inside queue.Queue / Event methods, timer threads, 3 or more concurrent requesters.",
            "DESIGN.md §3 C06"),
    "C08": ("One inbound primary against the real handlers in COMMUNICATING state: every stream 0..127 and odd function (quick < 32), "
            "W-bit, all 2^32 system bytes, built-in handlers / a user callback returning the secondary / raising / returning nothing; "
            "and the same through the real HsmsProtocol down to the bytes on the connection (also after an own request timed out). "
            "W-bit set => exactly one reply with the request's system bytes that is (s, f+1), (s, 0) or S9F5 carrying the offending "
            "ten header bytes. Two open findings are excluded by predicate and re-proved each run: replies are also sent for primaries "
            "without W-bit; no abort can be built for streams without a catalogued function 0.",
            "Trusted: CrossHair + chx, oracles/refe37.py; communication state constructed; recording protocol stub or recording "
            "connection with inline sender. Outside: bodies other than empty or the 14 well-formed samples, user callbacks that "
            "return nothing for a W-bit primary.",
            "DESIGN.md §3 C08"),
})

CLAIMED.update({
    "C09": ("Liveness reduced to a safety condition the rig can observe: the protocol's single receiver/sender thread must never be "
            "parked in a wait that only inbound data can release when disconnect handling starts, and no sender may wait for a block "
            "nobody can send. From the buffer state 'first j bytes of a frame' for every cut offset j (arbitrary header, body <= 2, both "
            "session states) the close sequence of the connection is run on the real HsmsProtocol: it must finish, report NOT "
            "CONNECTED with an empty buffer, and a following connection must decode and answer a Select.req. The same scenario is "
            "replayed on real dispatcher threads for every cut offset (3 s limit).",
            "tcp_lifecycle: the flag protocol of TcpConnection (disconnect() and the receiver thread function) over every history of "
            "<= 3 connections / idle disconnects on one object, then a connection that must deliver the peer's bytes, report the "
            "close once and leave all flags at rest. "
            "Trusted: CrossHair + chx, the Park model of blocking waits (rigs/park.py), oracles/refe37.py, socket/select/sleep contract "
            "stubs. server_stop_handshake: the accept loop of TcpServerConnection against disable() arriving in any of its first "
            "select() calls (every outcome of that call). NOT claimed: the client connection's connect thread, a peer connecting "
            "while disable() runs, preemption between disconnect() and the receiver thread.",
            "DESIGN.md §3 C09"),
})

CLAIMED.update({
    "C17": ("Single-direction transfers on the real SecsIProtocol against a reactive peer model that supplies its bytes exactly when "
            "the endpoint blocks in ByteQueue.wait_for: sending 1- and 2-block messages (symbolic tails, exact multiples of 244, all "
            "system bytes) the line shows ENQ, EOT, block, ACK/NAK per block, success is reported iff every block was ACKed and the "
            "peer reassembles the identical message; receiving a single-block message in chunks of symbolic sizes gives EOT then ACK "
            "and exactly one identical delivery, and with one corrupted header / data / checksum byte (any position, any value) EOT "
            "then NAK and no delivery.",
            "Trusted: CrossHair + chx, oracles/refe4.py, the reactive-peer condition stub (obligations/C17.py), inline protocol thread. "
            "NOT covered (stated): two real threads on the byte queue, contention (both sides ENQ), T1-T4 timeouts and retries, "
            "corruption of the length byte (needs T2), multi-block reception; header fields covered field-wise.",
            "DESIGN.md §3 C17"),
})

CLAIMED.update({
    "C20": ("(a) Mutual format compatibility and data agreement: the real GemHostHandler API (request_svs, list_svs, "
            "request_ecs, list_ecs, set_ec, list_alarms, list_enabled_alarms, enable/disable_alarm, go_online/offline, are_you_there, "
            "subscribe/clear_collection_events, send_remote_command) runs against a real GemEquipmentHandler over a loopback that "
            "carries the ENCODED bytes of every request and reply in both directions; with symbolic variable / constant values (full "
            "width) the host-side results must equal what the equipment holds, set_ec is applied iff in range, and every collection "
            "event triggered while enabled reaches the host's collection_event_received exactly once with the linked values (none "
            "after clearing, again after re-subscribing). (b) establish_schedules: both real handlers on a scheduled link "
            "(rigs/net.py): the first 3-5 events are chosen by a SYMBOLIC schedule among delivery of either direction's "
            "FIFO head, early expiry of a WAIT_CRA / delay timer, enable / disable of either side, link selected (inside enable() or "
            "later), link loss; either connect role, first S1F13 refused or accepted on either side, symbolic system-byte counters; "
            "after every such prefix a fair continuation (FIFO delivery, timers in due order on a virtual clock) must bring both "
            "sides to COMMUNICATING within 40 events, no user callback ran outside COMMUNICATING, S1F1/S1F2 works both ways and a "
            "subscribed collection event reaches the host exactly once.",
            "Bounded: schedules longer than the stated depth, > 2 early timer expiries, > 1 link loss / disable are outside. The "
            "HSMS/TCP layers below the GEM handlers are abstracted to their notifications in (b) (Select exchange, T5-T8, byte "
            "segmentation are C04/C05/C09's subject); each event runs to completion (no preemption inside a handler). Trusted: "
            "CrossHair + chx; rigs/net.py (one FIFO per direction, passive side selected first, virtual timers); for (a) both "
            "handlers constructed in COMMUNICATING state; inline sender thread.",
            "DESIGN.md §3 C20"),
})

CLAIMED.update({
    "C03": ("Per catalogued function: a structure-conforming plain value is generated from the live _data_format tree (open lists "
            "0..2, symbolic ints over the full range of the item's first - and for length-limited numeric items a multi-byte - "
            "alternative type, symbolic text/bytes/bools, length-limited items at their limit); the bytes produced are parsed by the "
            "independent E5 decoder and must denote the value, get() returns the plain value unchanged; the same structure with fresh "
            "symbolic payload bytes is decoded via StreamsFunctions().decode (class found by stream/function only) and must re-encode "
            "identically with the reference values. Catalogue attributes (direction, reply, reply-required, multi-block), pairing "
            "and the YAML are compared as z3 facts over a symbolic (stream, function) index. Quick: 60+ functions, thorough: all 134.",
            "Trusted: CrossHair + chx, z3, oracles/refe5.py. Outside: lists > 2 (> 1 for five deeply nested functions), alternative "
            "types other than the first / one multi-byte alternative, float leaves fixed.",
            "DESIGN.md §3 C03"),
})

NOT_APPLICABLE = {
}

PENDING_REASON = "no check is registered yet in this commit (machinery under construction; see DESIGN.md §3 for the planned solver-based check)"

def main():
    ids = [json.loads(l)["id"] for l in open("properties.jsonl")]
    checks = []
    for pid in ids:
        if pid not in CLAIMED:
            continue
        text, note, ref = CLAIMED[pid]
        checks.append({
            "property_id": pid,
            "quick_cmd": f"./check {pid} --tier quick",
            "thorough_cmd": f"./check {pid} --tier thorough",
            "evidence_file": f"/verif/evidence/{pid}.json",
            "replay_cmd_template": "./check --replay {path}",
            "engine": "chx+z3",
            "level_claimed": {"category": "model_checking", "text": text, "design_ref": ref},
            "level_note": note,
            "technique": TECH,
        })
    na = [{"property_id": pid, "reason": NOT_APPLICABLE.get(pid, PENDING_REASON)} for pid in ids if pid not in CLAIMED]
    m = {
        "version": 1,
        "setup_cmd": "./setup.sh",
        "hooks": {"guard": "SECSGEM_VERIF", "enable": "none needed: all stubs are attached from outside the repository (no hook commits)",
                  "baseline_off_cmd": "cd /repo && /venv/bin/python -m pytest -ra -q -p no:cacheprovider --timeout=900 --continue-on-collection-errors",
                  "source_commits": [], "add_only": True},
        "engines": [
            {"name": "chx+z3", "path": "engine/", "serves_properties": [c["property_id"] for c in checks],
             "kind_free_text": "E1 CrossHair symbolic execution of the real code objects with extensions (engine/chx), E2 z3 FloatingPoint lemmas generated from source guards (engine/fp), E3 z3 schedule search over real bytecode (engine/ilv), E3b statement-level schedules of a source-regenerated generator under CrossHair with real-thread replay (engine/stmt); driver engine/driver.py, one worker process per obligation"}
        ],
        "checks": checks,
        "not_applicable": na,
        "notes": "Exit codes of ./check: 0 discharged, 1 VIOLATION (replayed on the real code), 2 inconclusive (timeout/unknown/vacuous witness), 3 harness error. known_findings.json lists genuine defects (open -> KNOWN-FINDING line, fixed -> suppresses nothing).",
    }
    json.dump(m, open("MANIFEST.json", "w"), indent=1)
    print("checks:", [c["property_id"] for c in checks], "n/a:", len(na))

main()
