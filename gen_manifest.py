#!/usr/bin/env python3
"""Regenerates MANIFEST.json from the table below (keeps it schema-valid). Run: python3 gen_manifest.py"""
import json

TECH = "bounded symbolic execution of the real code (CrossHair 0.0.110 + z3) and generated z3 queries; solver verdict over all values within stated bounds"

# property id -> (level text, level note, design_ref)
CLAIMED = {
    "C01": ("Every obligation executes the real variables classes symbolically: item headers for every length 0..2^24-1 and all 15 "
            "classes, integer items over their full width (lists <= 3), text/binary/boolean payloads over all byte values across the "
            "255/256 (and for Binary 65535/65536) boundaries, nested Array/List trees, fresh-byte decode incl. decoding into used "
            "objects; F4/F8 range guards as z3 FloatingPoint lemmas over every finite binary32/64; z3 proves the reference "
            "round-trips. Holds for all values inside the bounds; nothing is claimed outside them.",
            "Trusted: CrossHair models + the chx patches (struct, &|^, raise-formatting), z3, the E5 reference oracle (oracles/refe5.py), "
            "CPython struct.pack float rounding. Outside: symbolic payload parts > 3 elements, nesting depth > 3 / width > 2, "
            "String at 65535/65536 and everything at 16 MiB only concretely; JIS-8 by exhaustive table enumeration (finite, no solver).",
            "DESIGN.md §3 C01"),
}

NOT_APPLICABLE = {
}

PENDING_REASON = "no check is registered yet in this commit (machinery under construction; see DESIGN.md §3 for the planned solver-based check)"

def main():
    ids = [json.loads(l)["id"] for l in open("properties.jsonl")]
    checks = []
    for pid in ids:
        if pid not in CLAIMED:
            continue
        text, note, ref = CLAIMED[pid]
        checks.append({
            "property_id": pid,
            "quick_cmd": f"./check {pid} --tier quick",
            "thorough_cmd": f"./check {pid} --tier thorough",
            "evidence_file": f"/verif/evidence/{pid}.json",
            "replay_cmd_template": "./check --replay {path}",
            "engine": "chx+z3",
            "level_claimed": {"category": "model_checking", "text": text, "design_ref": ref},
            "level_note": note,
            "technique": TECH,
        })
    na = [{"property_id": pid, "reason": NOT_APPLICABLE.get(pid, PENDING_REASON)} for pid in ids if pid not in CLAIMED]
    m = {
        "version": 1,
        "setup_cmd": "./setup.sh",
        "hooks": {"guard": "SECSGEM_VERIF", "enable": "none needed: all stubs are attached from outside the repository (no hook commits)",
                  "baseline_off_cmd": "cd /repo && /venv/bin/python -m pytest -ra -q -p no:cacheprovider --timeout=900 --continue-on-collection-errors",
                  "source_commits": [], "add_only": True},
        "engines": [
            {"name": "chx+z3", "path": "engine/", "serves_properties": [c["property_id"] for c in checks],
             "kind_free_text": "E1 CrossHair symbolic execution of the real code objects with extensions (engine/chx), E2 z3 FloatingPoint lemmas generated from source guards (engine/fp), E3 z3 schedule search over real bytecode (engine/ilv); driver engine/driver.py, one worker process per obligation"}
        ],
        "checks": checks,
        "not_applicable": na,
        "notes": "Exit codes of ./check: 0 discharged, 1 VIOLATION (replayed on the real code), 2 inconclusive (timeout/unknown/vacuous witness), 3 harness error. known_findings.json lists genuine defects (open -> KNOWN-FINDING line, fixed -> suppresses nothing).",
    }
    json.dump(m, open("MANIFEST.json", "w"), indent=1)
    print("checks:", [c["property_id"] for c in checks], "n/a:", len(na))

main()
