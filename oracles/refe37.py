"""Independent SEMI E37 (HSMS) message reference: 4-byte length (header + body, big endian), 10-byte header, body.

Header: bytes 0-1 session id; byte 2 = W-bit<<7 | stream (data messages) ; byte 3 function ; byte 4 PType ; byte 5 SType ;
bytes 6-9 system bytes. SType: 0 data, 1 Select.req, 2 Select.rsp, 3 Deselect.req, 4 Deselect.rsp, 5 Linktest.req,
6 Linktest.rsp, 7 Reject.req, 9 Separate.req. Arithmetic only (+ * // %).
"""
STYPES = (0, 1, 2, 3, 4, 5, 6, 7, 9)


def header(system, session, stream, function, w_bit, p_type, s_type):
    return [session // 256, session % 256, (128 if w_bit else 0) + stream, function, p_type, s_type,
            system // 16777216, (system // 65536) % 256, (system // 256) % 256, system % 256]


def fields(h):
    return {"session": h[0] * 256 + h[1], "w": h[2] >= 128, "stream": h[2] % 128, "function": h[3], "p_type": h[4],
            "s_type": h[5], "system": ((h[6] * 256 + h[7]) * 256 + h[8]) * 256 + h[9]}


def frame(h, body):
    n = len(h) + len(body)
    return [n // 16777216, (n // 65536) % 256, (n // 256) % 256, n % 256] + list(h) + list(body)
