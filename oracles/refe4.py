"""Independent SEMI E4 (SECS-I) block reference: 1 length byte (header+data = 10..254), 10 header bytes, data, 2 checksum bytes.

Header: byte0 = R-bit<<7 | device id bits 14..8 ; byte1 = device id low ; byte2 = W-bit<<7 | stream(7) ; byte3 = function ;
byte4 = E-bit<<7 | block number bits 14..8 ; byte5 = block number low ; bytes 6..9 = system bytes (big endian).
Checksum = arithmetic sum of header and data bytes, 16 bit big endian. Arithmetic only with + * // % (symbolic friendly).
"""


def header(system, device_id, stream, function, block, r_bit, w_bit, e_bit):
    return [
        (128 if r_bit else 0) + device_id // 256, device_id % 256,
        (128 if w_bit else 0) + stream, function,
        (128 if e_bit else 0) + block // 256, block % 256,
        system // 16777216, (system // 65536) % 256, (system // 256) % 256, system % 256,
    ]


def fields(h):
    """h: 10 header bytes -> dict of field values"""
    return {
        "from_equipment": h[0] >= 128, "device_id": (h[0] % 128) * 256 + h[1],
        "require_response": h[2] >= 128, "stream": h[2] % 128, "function": h[3],
        "last_block": h[4] >= 128, "block": (h[4] % 128) * 256 + h[5],
        "system": ((h[6] * 256 + h[7]) * 256 + h[8]) * 256 + h[9],
    }


def block(h, data):
    s = 0
    for b in h:
        s = s + b
    for b in data:
        s = s + b
    return [len(h) + len(data)] + list(h) + list(data) + [s // 256, s % 256]
