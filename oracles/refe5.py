"""Independent SEMI E5 (SECS-II) item reference written from the standard, not from secsgem.

E5 §9: an item = format byte (format code << 2 | number-of-length-bytes 1..3), 1-3 length bytes (big endian,
number of *data bytes*), data. Format codes (octal): L 00, B 10, BOOLEAN 11, A 20, J 21, I8 30, I1 31, I2 32,
I4 34, F8 40, F4 44, U8 50, U1 51, U2 52, U4 54. Numbers big-endian two's complement. List length = number of items.

Only +, -, *, //, % and comparisons are used so that every function can be executed on CrossHair symbolic
ints (they stay linear-integer terms) as well as on plain ints.
"""

L, B, BOOLEAN, A, J = 0o00, 0o10, 0o11, 0o20, 0o21
I8, I1, I2, I4 = 0o30, 0o31, 0o32, 0o34
F8, F4 = 0o40, 0o44
U8, U1, U2, U4 = 0o50, 0o51, 0o52, 0o54

INT_WIDTH = {I1: 1, I2: 2, I4: 4, I8: 8, U1: 1, U2: 2, U4: 4, U8: 8}
SIGNED = {I1, I2, I4, I8}
ALL_CODES = [L, B, BOOLEAN, A, J, I8, I1, I2, I4, F8, F4, U8, U1, U2, U4]
ELEM_SIZE = {B: 1, BOOLEAN: 1, A: 1, J: 1, I8: 8, I1: 1, I2: 2, I4: 4, F8: 8, F4: 4, U8: 8, U1: 1, U2: 2, U4: 4}


def header(code, length):
    """canonical (minimal number of length bytes) item header as a list of ints"""
    if length < 0 or length > 0xFFFFFF:
        raise ValueError("length")
    if length > 0xFFFF:
        return [code * 4 + 3, length // 65536, (length // 256) % 256, length % 256]
    if length > 0xFF:
        return [code * 4 + 2, length // 256, length % 256]
    return [code * 4 + 1, length]


def int_bytes(code, v):
    """big-endian two's complement bytes of v for integer format `code` (list of ints); branch-free in v"""
    n = INT_WIDTH[code]
    u = v % (256 ** n)          # two's complement for negative v (floor modulus)
    out = []
    for _ in range(n):
        out.append(u % 256)
        u = u // 256
    out.reverse()
    return out


def int_range(code):
    n = INT_WIDTH[code]
    if code in SIGNED:
        return -(256 ** n) // 2, (256 ** n) // 2 - 1
    return 0, 256 ** n - 1


def int_value(code, bs):
    """value denoted by len(bs)==width big-endian bytes; branch-free in the byte values"""
    n = INT_WIDTH[code]
    v = 0
    for b in bs:
        v = v * 256 + b
    if code in SIGNED:
        v = v - (bs[0] // 128) * (256 ** n)
    return v


def encode_ints(code, values):
    out = header(code, len(values) * INT_WIDTH[code])
    for v in values:
        out = out + int_bytes(code, v)
    return out


def encode_bytes_item(code, payload):
    """B / A / J(after charset mapping) / BOOLEAN items: payload is a list of ints 0..255"""
    return header(code, len(payload)) + list(payload)


def encode_list(items):
    """items: list of already encoded items (lists of ints)"""
    out = header(L, len(items))
    for it in items:
        out = out + it
    return out


# ---------------------------------------------------------------- concrete reference decoder (plain ints only)
class Invalid(Exception):
    pass


def decode(data, pos=0, depth=0, pins=None):
    """Reference decoder: returns (value, newpos). value = (code, payload) with payload
    list of ints (ints, B, BOOLEAN as 0/1.., A/J raw bytes), list of floats bit patterns (F4/F8 as ints of raw bits)
    or list of values (L). Accepts 1..3 length bytes regardless of magnitude; 0 length bytes is invalid (E5).
    pins (optional list) collects (position, concrete format byte): under symbolic execution the format byte is compared
    against every legal value, so on each path it is known concretely and the caller may substitute it."""
    if pos >= len(data):
        raise Invalid("no format byte")
    fb = data[pos]
    code, nlb = fb // 4, fb % 4
    ccode = cnlb = None
    for c in ALL_CODES:
        if code == c:
            ccode = c
    for k in (1, 2, 3):
        if nlb == k:
            cnlb = k
    if ccode is None or cnlb is None:
        raise Invalid("format byte")
    code, nlb = ccode, cnlb
    if pins is not None:
        pins.append((pos, code * 4 + nlb))
    if pos + 1 + nlb > len(data):
        raise Invalid("length bytes")
    length = 0
    for i in range(nlb):
        length = length * 256 + data[pos + 1 + i]
    pos = pos + 1 + nlb
    if code == L:
        items = []
        for _ in range(length):
            v, pos = decode(data, pos, depth + 1, pins)
            items.append(v)
        return (L, items), pos
    if pos + length > len(data):
        raise Invalid("payload")
    size = ELEM_SIZE[code]
    if length % size != 0:
        raise Invalid("length not multiple of element size")
    raw = list(data[pos:pos + length])
    if code in INT_WIDTH:
        vals = [int_value(code, raw[i:i + size]) for i in range(0, length, size)]
    elif code in (F4, F8):
        vals = []
        for i in range(0, length, size):
            b = 0
            for x in raw[i:i + size]:
                b = b * 256 + x
            vals.append(b)
    else:
        vals = raw
    return (code, vals), pos + length


def canonical(value):
    """canonical encoding (list of ints) of a reference value"""
    code, payload = value
    if code == L:
        return encode_list([canonical(v) for v in payload])
    if code in INT_WIDTH:
        return encode_ints(code, payload)
    if code in (F4, F8):
        size = ELEM_SIZE[code]
        out = header(code, len(payload) * size)
        for b in payload:
            out = out + [(b // (256 ** i)) % 256 for i in range(size - 1, -1, -1)]
        return out
    if code == BOOLEAN:
        return header(code, len(payload)) + [1 if b else 0 for b in payload]
    return header(code, len(payload)) + list(payload)
