import chfix
from typing import List
import errno
import secsgem.common.tcp_connection as tc
from secsgem.common.tcp_connection import TcpConnection


class FakeSock:
    """Environment stub: socket.send contract = accepts 1..len(data) bytes or raises OSError."""
    def __init__(self, script: List[int]):
        self.script = script
        self.i = 0
        self.wire = b""
    def fileno(self): return 3
    def send(self, data):
        if self.i >= len(self.script):
            n = len(data)
        else:
            n = self.script[self.i]
            self.i += 1
        if n == -1:
            raise OSError(errno.EWOULDBLOCK, "wb")
        if n == -2:
            raise OSError(errno.EPIPE, "pipe")
        if n <= 0 or n > len(data):
            n = len(data)
        self.wire += data[:n]
        return n


class Conn(TcpConnection):
    def enable(self): pass
    def disable(self): pass


def send_all_or_fail(data: bytes, script: List[int]) -> bool:
    """
    pre: 1 <= len(data) <= 4
    pre: len(script) <= 3
    pre: all(-2 <= s <= 4 for s in script)
    post: _
    """
    c = Conn.__new__(Conn)
    c._sock = FakeSock(script)
    import logging
    c._bytestream_logger = logging.getLogger("x")
    tc.select.select = lambda r, w, x, t=None: (r, w, x)
    ok = c.send_data(data)
    if ok:
        return c._sock.wire == data
    return True
