import chfix, bitfix
from secsgem.secs.functions.sfdl_tokenizer import SFDLTokenizer, SFDLParseError
from secsgem.secs.variables import functions as vf
from secsgem.secs.items import Item

ALPH = "<> LU1#\n"

def strip_comments(s: str) -> str:
    out = ""
    inc = False
    for c in s:
        if c == "#": inc = True
        if inc:
            if c in "\n\r": inc = False
            continue
        out += c
    return out

def sfdl_reject_unbalanced(s: str) -> bool:
    """
    pre: len(s) <= 7
    pre: all(c in "<> LU1#" + chr(10) for c in s)
    post: _
    """
    body = strip_comments(s)
    unbalanced = body.count("<") > body.count(">")
    try:
        r = vf.generate(s)
    except SFDLParseError:
        return True
    except Exception:
        return True   # other exception: not the subject here
    return not unbalanced

def sml_reject_unbalanced(s: str) -> bool:
    """
    pre: len(s) <= 6
    pre: all(c in "<> LU1." for c in s)
    post: _
    """
    unbalanced = s.count("<") > s.count(">")
    try:
        r = Item.from_sml(s)
    except Exception:
        return True
    return not unbalanced
