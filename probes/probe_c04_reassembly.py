import chfix, bitfix
import random
random.randint = lambda a, b: 17
from typing import List
from rig2 import make_protocol
from secsgem.hsms.header import HsmsHeader, HsmsSType
from secsgem.hsms.message import HsmsBlock
from crosshair.simplestructs import SimpleDict
from h8 import ref_frame

class Park(Exception):
    pass

class NoBlockCond:
    """environment stub for threading.Condition: a wait that would block parks the (single) receiver."""
    def __enter__(self): return self
    def __exit__(self, *a): return False
    def notify_all(self): pass
    def wait_for(self, pred):
        if not pred():
            raise Park()
        return True

def reassembly(sys1: int, sys2: int, b1: bytes, b2: bytes, cuts: List[int]) -> bool:
    """
    pre: 0 <= sys1 < 2**32 and 0 <= sys2 < 2**32
    pre: len(b1) <= 2 and len(b2) <= 2
    pre: len(cuts) <= 3
    pre: all(0 <= c <= 32 for c in cuts)
    post: _
    """
    p, c, delivered = make_protocol()
    p._receive_buffer._buffer_lock = NoBlockCond()
    got = []
    p._thread.queue_block = lambda src, blk: got.append(blk)
    def rx():
        try:
            p._process_received_data()
        except Park:
            pass
    p._thread.trigger_receiver = rx
    f1 = ref_frame(1, False, 1, 1, 0, 0, sys1, b1)
    f2 = ref_frame(2, True, 2, 3, 0, 0, sys2, b2)
    stream = f1 + f2
    pts = sorted(set([min(x, len(stream)) for x in cuts] + [0, len(stream)]))
    for i in range(len(pts) - 1):
        seg = stream[pts[i]:pts[i+1]]
        if len(seg):
            p._on_connection_data_received({"source": c, "data": seg})
    if len(got) != 2:
        return False
    return (got[0].header.system == sys1 and got[0].data == b1 and got[1].header.system == sys2
            and got[1].data == b2 and got[1].header.stream == 2 and got[1].header.require_response
            and len(p._receive_buffer) == 0)
