import random, logging
import secsgem.common, secsgem.hsms
from secsgem.hsms.protocol import HsmsProtocol
from secsgem.hsms.connection_state_machine import ConnectionState

class FakeConn(secsgem.common.Connection):
    def __init__(self, settings):
        super().__init__(settings)
        self.wire = []
    def enable(self): pass
    def disable(self): pass
    def send_data(self, data):
        self.wire.append(bytes(data)) if not hasattr(data, "__ch_realize__") else self.wire.append(data)
        return True

class S(secsgem.hsms.HsmsSettings):
    def create_connection(self):
        return self._c
    
def make_protocol(active=False):
    s = S(connect_mode=secsgem.hsms.HsmsConnectMode.ACTIVE if active else secsgem.hsms.HsmsConnectMode.PASSIVE)
    s._c = FakeConn(s)
    p = HsmsProtocol(s)
    # environment stub: run the sender inline instead of waking the receiver thread
    p._thread.trigger_receiver = p._process_send_queue
    delivered = []
    p.events.message_received += lambda d: delivered.append(d["message"])
    p._connection  # create + register
    return p, s._c, delivered
