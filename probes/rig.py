"""Minimal single-threaded rig: real GemEquipmentHandler over a recording protocol."""
import secsgem.common, secsgem.hsms, secsgem.gem, secsgem.secs


class RecProtocol(secsgem.common.Protocol):
    """Protocol stub: records sends; never blocks. (environment stub)"""
    message_type = secsgem.hsms.HsmsMessage

    def __init__(self, settings):
        super().__init__(settings)
        self.sent = []
        self.reply = None

    def _on_connected(self, _): pass
    def _on_disconnecting(self, _): pass
    def _on_disconnected(self, _): pass
    def _process_send_queue(self): pass
    def _process_received_data(self): pass
    def serialize_data(self): return {}
    def _on_connection_message_received(self, source, message): pass
    def _get_log_extra(self): return {}
    def enable(self): pass
    def disable(self): pass

    def _create_message_for_function(self, function, system_id):
        return secsgem.hsms.HsmsMessage(
            secsgem.hsms.HsmsStreamFunctionHeader(system_id, function.stream, function.function, function.is_reply_required, 0),
            function.encode())

    def send_message(self, message):
        self.sent.append(message)
        return True

    def send_and_waitfor_response(self, function):
        self.sent.append(self._create_message_for_function(function, 7))
        return self.reply


class RigSettings(secsgem.common.Settings):
    def __init__(self, **kw):
        super().__init__(**kw)
        self._p = RecProtocol(self)
    @classmethod
    def _args(cls): return super()._args()
    def create_protocol(self): return self._p
    def create_connection(self): return None
    @property
    def name(self): return "rig"
    def generate_thread_name(self, f): return "rig_" + f


def make_equipment():
    s = RigSettings(device_type=secsgem.common.DeviceType.EQUIPMENT)
    h = secsgem.gem.GemEquipmentHandler(s)
    return h, s._p


def msg(function, system=1):
    return secsgem.hsms.HsmsMessage(
        secsgem.hsms.HsmsStreamFunctionHeader(system, function.stream, function.function, function.is_reply_required, 0),
        function.encode())
