import chfix, bitfix
import crosshair.core as _cc
_cc.consider_shortcircuit = lambda *a, **k: None
import random
random.randint = lambda a, b: 17
from typing import List
from rig import make_equipment, msg
import secsgem.secs, secsgem.gem
from secsgem.gem.collection_event_link import CollectionEventLink
from secsgem.gem.collection_event_report import CollectionEventReport
from crosshair.simplestructs import SimpleDict
F = secsgem.secs.functions

def inv(h) -> bool:
    for ce, link in h.registered_collection_events.items():
        seen = []
        for r in link.reports:
            if r not in h.registered_reports: return False
            if r in seen: return False
            seen.append(r)
    return True

def step_s2f35(pre_link: List[int], rpts: List[int], req: List[int]) -> bool:
    """
    pre: len(pre_link) <= 2 and len(rpts) <= 2 and 1 <= len(req) <= 2
    pre: all(0 <= x < 2**32 for x in pre_link + rpts + req)
    post: _
    """
    h, p = make_equipment()
    reports = SimpleDict([])
    for r in rpts:
        reports[r] = CollectionEventReport(r, [])
    links = SimpleDict([])
    if pre_link:
        links[1] = CollectionEventLink(h.collection_events[1], list(pre_link))
    h._registered_reports = reports
    h._registered_collection_events = links
    if not inv(h):
        return True          # pre-state outside the invariant: not a reachable state
    rsp = h._on_s02f35(h, msg(F.SecsS02F35({"DATAID": 0, "DATA": [{"CEID": 1, "RPTID": req}]})))
    return inv(h)
