import chfix
import threading
from rig import make_equipment, msg
import secsgem.secs, secsgem.gem

F = secsgem.secs.functions

def inv(h) -> bool:
    for ce, link in h.registered_collection_events.items():
        for r in link.reports:
            if r not in h.registered_reports:
                return False
    return True

def step_s2f35_then_delete(r1: int, r2: int, d: int) -> bool:
    """
    pre: 0 <= r1 < 3 and 0 <= r2 < 3 and 0 <= d < 3
    post: _
    """
    h, p = make_equipment()
    h.status_variables[10] = secsgem.gem.StatusVariable(10, "sv", "u", secsgem.secs.variables.U4, False)
    h.status_variables[10].value = 5
    for r in range(3):
        h._on_s02f33(h, msg(F.SecsS02F33({"DATAID": 0, "DATA": [{"RPTID": r, "VID": [10]}]})))
    rsp = h._on_s02f35(h, msg(F.SecsS02F35({"DATAID": 0, "DATA": [{"CEID": 1, "RPTID": [r1, r2]}]})))
    h._on_s02f33(h, msg(F.SecsS02F33({"DATAID": 0, "DATA": [{"RPTID": d, "VID": []}]})))
    return inv(h)
