import chfix, bitfix
import random
random.randint = lambda a, b: 17
from rig2 import make_protocol
import secsgem.hsms
from secsgem.hsms.header import HsmsHeader, HsmsSType
from secsgem.hsms.message import HsmsBlock, HsmsMessage
from secsgem.hsms.connection_state_machine import ConnectionState
from crosshair.simplestructs import SimpleDict

STYPES = [0,1,2,3,4,5,6,7,9]

def ref_frame(session, w, stream, function, ptype, stype, system, body=b""):
    """independent E37 frame encoder (reference)"""
    n = 10 + len(body)
    return bytes([ (n // 16777216) % 256, (n // 65536) % 256, (n // 256) % 256, n % 256,
                   (session // 256) % 256, session % 256, (128 if w else 0) + stream, function, ptype, stype,
                   (system // 16777216) % 256, (system // 65536) % 256, (system // 256) % 256, system % 256]) + body

def one_step(state: int, st: int, system: int, session: int, w: bool) -> bool:
    """
    pre: 1 <= state <= 2 and 0 <= st < 9
    pre: 0 <= system < 2**32 and 0 <= session < 2**16
    post: _
    """
    p, c, delivered = make_protocol()
    p._incomplete_messages = SimpleDict([])
    p._response_queues = SimpleDict([])
    sm = p.connection_state
    sm._current_state = [sm.not_connected, sm.connected_not_selected, sm.connected_selected][state]
    sm.not_connected._active = False
    sm.connected._active = True
    sm._current_state._active = True
    stype = HsmsSType(STYPES[st])
    hdr = HsmsHeader(system, session, 1, 1, w, 0, stype)
    p._dispatch_block(p, HsmsBlock(hdr, b""))
    out = c.wire
    if stype == HsmsSType.LINKTEST_REQ:
        return len(out) == 1 and out[0] == ref_frame(0xFFFF, False, 0, 0, 0, 6, system)
    if stype == HsmsSType.SELECT_REQ:
        return len(out) == 1 and out[0] == ref_frame(0xFFFF, False, 0, 0, 0, 2, system) and sm.current == ConnectionState.CONNECTED_SELECTED
    if stype == HsmsSType.DESELECT_REQ:
        return len(out) == 1 and out[0] == ref_frame(0xFFFF, False, 0, 0, 0, 4, system) and sm.current == ConnectionState.CONNECTED_NOT_SELECTED
    if stype == HsmsSType.DATA_MESSAGE and state == 1:
        return len(delivered) == 0 and len(out) == 1 and out[0] == ref_frame(0xFFFF, False, 0, 4, 0, 7, system)
    if stype == HsmsSType.DATA_MESSAGE and state == 2:
        return len(delivered) == 1 and len(out) == 0
    return len(out) == 0
