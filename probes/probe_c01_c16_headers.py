import chfix, bitfix
from typing import List
from secsgem.secs.variables.base import Base
from secsgem.secs.variables import U2, I4
from secsgem.hsms.header import HsmsHeader, HsmsSType
from secsgem.secsi.header import SecsIHeader

def ref_header(fmt: int, length: int) -> bytes:
    if length <= 0xFF:
        return bytes([(fmt << 2) | 1, length])
    if length <= 0xFFFF:
        return bytes([(fmt << 2) | 2, length // 256, length % 256])
    return bytes([(fmt << 2) | 3, length // 65536, (length // 256) % 256, length % 256])

def hdr_roundtrip(length: int) -> bool:
    """
    pre: 0 <= length <= 0xFFFFFF
    post: _
    """
    b = Base()
    b.format_code = 0o20
    enc = b.encode_item_header(length)
    if enc != ref_header(0o20, length):
        return False
    pos, f, l = b.decode_item_header(enc, 0)
    return pos == len(enc) and f == 0o20 and l == length

def andtest(x: int) -> bool:
    """
    pre: -70000 <= x <= 70000
    post: _
    """
    return ((x & 0xFF00) >> 8) == ((x >> 8) % 256) and (x | 0x80) >= x and ((x ^ 0x0F) ^ 0x0F) == x

def andtest_witness(x: int) -> bool:
    """
    pre: -70000 <= x <= 70000
    post: _
    """
    return (x & 0xFF00) != 0x1200

def secsi_hdr(system: int, dev: int, stream: int, fn: int, block: int, r: bool, w: bool, e: bool) -> bool:
    """
    pre: 0 <= system < 2**32 and 0 <= dev < 2**15 and 0 <= stream < 128 and 0 <= fn < 256 and 0 <= block < 2**15
    post: _
    """
    h = SecsIHeader(system, dev, stream, fn, block, r, w, e)
    enc = h.encode()
    d = SecsIHeader.decode(enc)
    return (len(enc) == 10 and d.system == system and d.device_id == dev and d.stream == stream and d.function == fn
            and d.block == block and d.from_equipment == r and d.require_response == w and d.last_block == e
            and enc[0] == (dev >> 8) + (128 if r else 0) and enc[1] == dev % 256)

def u2_roundtrip(vals: List[int]) -> bool:
    """
    pre: len(vals) <= 3
    pre: all(0 <= v <= 0xFFFF for v in vals)
    post: _
    """
    v = U2(vals)
    enc = v.encode()
    w = U2()
    pos = w.decode(enc)
    return pos == len(enc) and w.value == vals and len(enc) == 2 + 2 * len(vals)
