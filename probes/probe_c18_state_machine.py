import chfix
from typing import List
from secsgem.hsms.connection_state_machine import ConnectionStateMachine
from secsgem.gem.control_state_machine import ControlStateMachine
from secsgem.common.state_machine import WrongSourceStateError, State

def all_states(sm):
    return [v for v in vars(sm).values() if isinstance(v, State)]

def ancestors(s):
    out = []
    while s is not None:
        out.append(s); s = s.parent
    return out

def active_ok(sm) -> bool:
    want = set(id(s) for s in ancestors(sm.current_state))
    got = set(id(s) for s in all_states(sm) if s.active)
    return want == got

def conn_seq(seq: List[int]) -> bool:
    """
    pre: len(seq) <= 4
    pre: all(0 <= s < 5 for s in seq)
    post: _
    """
    sm = ConnectionStateMachine()
    names = [t.name for t in sm._transitions]
    for s in seq:
        t = sm._transitions[s]
        before = sm.current_state
        allowed = before in t.sources
        try:
            sm._perform_transition(names[s])
            if not allowed: return False
            if sm.current_state is not t.destination: return False
        except WrongSourceStateError:
            if allowed: return False
            if sm.current_state is not before: return False
        if not active_ok(sm): return False
    return True

def control_seq(cfg: int, onl: int, seq: List[int]) -> bool:
    """
    pre: 0 <= cfg < 4 and 0 <= onl < 2
    pre: len(seq) <= 3
    pre: all(0 <= s < 17 for s in seq)
    post: _
    """
    sm = ControlStateMachine(["EQUIPMENT_OFFLINE", "ATTEMPT_ONLINE", "HOST_OFFLINE", "ONLINE"][cfg], ["LOCAL", "REMOTE"][onl])
    sm.start()
    if not active_ok(sm): return False
    return True
